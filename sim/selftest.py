#!/venv/bin/python
"""Self-validation the machinery must pass before its verdicts count.

  selftest.py determinism [--seeds N]   same seeds twice, worker counts 1 and
                                        16, and a fresh interpreter under
                                        another PYTHONHASHSEED: per-run event
                                        log digests must be identical
  selftest.py stub [--runs N]           every fault-free stub solve re-solved
                                        by real CBC (status, objective, CBC's
                                        projection in the stub's optimal set)
  selftest.py evidence                  evidence files validate against the
                                        schema (needs python3-vt / jsonschema)
"""
import argparse
import json
import os
import subprocess
import sys
import time

HERE = os.path.dirname(os.path.abspath(__file__))
VERIF = os.path.dirname(HERE)
sys.path.insert(0, HERE)


def _digests_subprocess(prop, n, workers, hashseed, seed):
    code = (
        "import sys, json; sys.path.insert(0, %r)\n"
        "import batch\n"
        "agg = batch.run_batch(%r, 'quick', %d, %d, workers=%d)\n"
        "print(json.dumps({'d': sorted(agg.digest_list), 'h': agg.harness}))\n"
    ) % (HERE, prop, seed, n, workers)
    env = dict(os.environ)
    env['PYTHONHASHSEED'] = str(hashseed)
    env['VERIF_RECORD_DIGESTS'] = '1'
    p = subprocess.run([sys.executable, '-c', code], env=env,
                       capture_output=True, text=True, timeout=3600)
    if p.returncode != 0:
        raise RuntimeError('subprocess failed: ' + p.stderr[-2000:])
    return json.loads(p.stdout.strip().split('\n')[-1])


def determinism(n, props_list, seed):
    import props
    bad = 0
    for prop in props_list or sorted(props.PROPS):
        t0 = time.time()
        a = _digests_subprocess(prop, n, 16, 0, seed)
        b = _digests_subprocess(prop, n, 1, 0, seed)
        c = _digests_subprocess(prop, n, 5, 4242, seed)
        ok = a['d'] == b['d'] == c['d'] and not a['h'] and not b['h'] \
            and not c['h']
        print('%s: %d concrete runs, 3 executions (workers 16/1/5, '
              'PYTHONHASHSEED 0/0/4242): %s  [%.1fs]' % (
                  prop, len(a['d']), 'identical' if ok else 'DIFFERENT',
                  time.time() - t0))
        if not ok:
            bad += 1
            da, db, dc = map(lambda x: dict(((i, j), d) for i, j, d in x['d']),
                             (a, b, c))
            diff = [k for k in da if da[k] != db.get(k) or da[k] != dc.get(k)]
            print('   first differing runs:', diff[:5], 'harness:',
                  (a['h'] + b['h'] + c['h'])[:2])
    return 1 if bad else 0


def stub_vs_real(n, seed):
    import random
    import batch
    import props
    import oracles
    import execute
    import world
    total = {'solves': 0, 'mismatches': 0}
    t0 = time.time()
    spec = props.PROPS['C02']
    errors = []
    for i in range(n):
        rng = random.Random(batch.run_seed(seed, 'stubcheck', i))
        which = rng.choice(['C02', 'C03', 'C04', 'C05', 'C01'])
        sc = props.PROPS[which].builder(rng, 'quick')
        sc['backend']['policy'] = rng.choice(['uniform', 'first', 'last'])
        ctx = oracles.LPContext(sc)
        xs = {}
        try:
            execute.run_lp(sc, prefer=ctx.prefer,
                           xcheck={'rate': 1.0, 'rng': random.Random(1),
                                   'stats': xs})
        except world.HarnessError as e:
            errors.append((i, str(e)))
        total['solves'] += xs.get('solves', 0)
        total['mismatches'] += xs.get('mismatches', 0)
    print('stub vs real CBC: %d scenarios, %d solves compared, %d '
          'mismatches, %.1fs' % (n, total['solves'], total['mismatches'],
                                 time.time() - t0))
    for e in errors[:5]:
        print('  ', e)
    return 1 if errors else 0


def evidence():
    code = (
        "import json, glob, jsonschema\n"
        "s = json.load(open('/root/.vp/EVIDENCE.schema.json'))\n"
        "m = json.load(open('/root/.vp/MANIFEST.schema.json'))\n"
        "jsonschema.validate(json.load(open(%r)), m)\n"
        "fs = sorted(glob.glob(%r))\n"
        "for f in fs: jsonschema.validate(json.load(open(f)), s)\n"
        "print('manifest valid;', len(fs), 'evidence files valid')\n"
    ) % (os.path.join(VERIF, 'MANIFEST.json'),
         os.path.join(VERIF, 'evidence', '*.json'))
    return subprocess.call(['python3-vt', '-c', code])


def main():
    ap = argparse.ArgumentParser()
    ap.add_argument('what', choices=['determinism', 'stub', 'evidence'])
    ap.add_argument('--seeds', type=int, default=500)
    ap.add_argument('--runs', type=int, default=2000)
    ap.add_argument('--props', default='')
    a = ap.parse_args()
    seed = int(os.environ.get('VERIF_SEED', 20261001))
    if a.what == 'determinism':
        return determinism(a.seeds, [x for x in a.props.split(',') if x],
                           seed)
    if a.what == 'stub':
        return stub_vs_real(a.runs, seed)
    return evidence()


if __name__ == '__main__':
    sys.exit(main())
