"""Seeded batches, aggregation, minimisation, replay files, evidence.

One integer decides everything: VERIF_SEED -> run seed H(VERIF_SEED, property,
i) -> random.Random builds the scenario (an explicit JSON document).  Executing
it is a pure function of the document and the code under /repo.
"""
import concurrent.futures as cf
import copy
import faulthandler
import hashlib
import json
import multiprocessing
import os
import random
import subprocess
import sys
import time
import traceback

HERE = os.path.dirname(os.path.abspath(__file__))
VERIF = os.path.dirname(HERE)
if HERE not in sys.path:
    sys.path.insert(0, HERE)

import world                      # noqa: E402
from world import HarnessError    # noqa: E402

DEFAULT_SEED = 20261001
KNOWN_FINDINGS = os.path.join(VERIF, 'known_findings.json')
OUT = os.environ.get('VERIF_OUT', VERIF)      # evidence/ and replays/ go here
RECORD = bool(os.environ.get('VERIF_RECORD_DIGESTS'))
FAST_REPORT = bool(os.environ.get('VERIF_FAST_REPORT'))


def run_seed(verif_seed, prop, i):
    h = hashlib.sha256(('%d/%s/%d' % (verif_seed, prop, i)).encode())
    return int.from_bytes(h.digest()[:8], 'big')


def signature(v):
    return '%s@%s' % (v[0], v[1])


def _cap(v, per_signature=5, total=60):
    """One run at scale can violate a property a hundred thousand times (one
    entry per agent); a few witnesses per signature are kept."""
    seen = {}
    out = []
    for x in v['violations']:
        k = (x[0], x[1])
        seen[k] = seen.get(k, 0) + 1
        if seen[k] <= per_signature and len(out) < total:
            out.append(x)
    v['violations'] = out


def jsonable(x):
    if isinstance(x, dict):
        return dict((str(k), jsonable(v)) for k, v in x.items())
    if isinstance(x, (list, tuple, set, frozenset)):
        return [jsonable(v) for v in x]
    if isinstance(x, (int, float, str, bool)) or x is None:
        return x
    return repr(x)


def load_known():
    try:
        with open(KNOWN_FINDINGS) as f:
            return json.load(f).get('findings', [])
    except FileNotFoundError:
        return []


class Agg(object):
    """Aggregate of a chunk / of a whole batch."""

    def __init__(self):
        self.evaluations = 0
        self.base_scenarios = 0
        self.nontrivial_digests = set()
        self.all_digests = set()
        self.progs = set()
        self.probes = {}
        self.skipped = {}
        self.fired = {}
        self.policies = {}
        self.sim_seconds = 0.0
        self.rounds = 0
        self.real_lane = 0
        self.xsolves = 0
        self.xmismatch = 0
        self.unsupported = 0
        self.violations = []      # (i, j, v, sc)
        self.samples = []
        self.harness = []         # (i, text)
        self.extra = {}
        self.digest_list = []

    def merge(self, o):
        self.digest_list += o.digest_list
        self.evaluations += o.evaluations
        self.base_scenarios += o.base_scenarios
        self.nontrivial_digests |= o.nontrivial_digests
        self.all_digests |= o.all_digests
        self.progs |= o.progs
        for a, b in ((self.probes, o.probes), (self.skipped, o.skipped),
                     (self.fired, o.fired), (self.policies, o.policies),
                     (self.extra, o.extra)):
            for k, v in b.items():
                if isinstance(v, (int, float)):
                    a[k] = a.get(k, 0) + v
                elif isinstance(v, set):
                    a.setdefault(k, set()).update(v)
        self.sim_seconds += o.sim_seconds
        self.rounds += o.rounds
        self.real_lane += o.real_lane
        self.xsolves += o.xsolves
        self.xmismatch += o.xmismatch
        self.unsupported += o.unsupported
        self.violations += o.violations
        if len(self.samples) < 3:
            self.samples += o.samples[:3 - len(self.samples)]
        self.harness += o.harness


def _d8(hexdigest):
    return int(hexdigest[:16], 16)


def run_chunk(args, stop_at=None):
    """Runs seed indices lo..hi-1 in this (freshly forked, pristine) process.
    stop_at=(i, j): stop right after concrete run j of seed index i and return
    (verdict of that run, digest, everything executed before it) instead."""
    prop, tier, verif_seed, lo, hi = args
    import props
    import execute
    faulthandler.enable()
    spec = props.PROPS[prop]
    agg = Agg()
    agg.chunk_lo = lo
    for i in range(lo, hi):
        s = run_seed(verif_seed, prop, i)
        rng = random.Random(s)
        try:
            base = spec.build(rng, tier)
            base['run_seed'] = s
            concrete = spec.expand(base, rng, tier)
            agg.base_scenarios += 1
            for j, sc in enumerate(concrete):
                xstats = {}
                hist_len = len(execute.EXEC_LOG)
                tr, v = spec.evaluate(sc, xstats=xstats, xrng=rng)
                _cap(v)
                if stop_at is not None and (i, j) == tuple(stop_at):
                    return {'violations': jsonable(v['violations']),
                            'digest': tr.digest(),
                            'history': list(execute.EXEC_LOG[:hist_len]),
                            'scenario': sc}
                agg.evaluations += 1
                dg = tr.digest()
                agg.all_digests.add(_d8(dg))
                if RECORD:
                    agg.digest_list.append((i, j, dg))
                if v['nontrivial']:
                    agg.nontrivial_digests.add(_d8(dg))
                for k, val in v['probes'].items():
                    if val:
                        agg.probes[k] = agg.probes.get(k, 0) + val
                if v['skipped']:
                    agg.skipped[v['skipped']] = agg.skipped.get(
                        v['skipped'], 0) + 1
                for k, val in tr.fired.items():
                    agg.fired[k] = agg.fired.get(k, 0) + val
                for r in tr.rounds:
                    if r.get('prog'):
                        agg.progs.add(r['prog'])
                    if r.get('real'):
                        pass
                    if r.get('unsupported'):
                        agg.unsupported += 1
                for k, val in v.get('extra', {}).items():
                    if isinstance(val, (set, frozenset)):
                        agg.extra.setdefault(k, set()).update(val)
                    else:
                        agg.extra[k] = agg.extra.get(k, 0) + val
                pol = sc.get('backend', {}).get('policy')
                if pol:
                    agg.policies[pol] = agg.policies.get(pol, 0) + 1
                    if pol == 'real':
                        agg.real_lane += 1
                agg.sim_seconds += tr.clock_seconds
                agg.rounds += len(tr.rounds)
                agg.xsolves += xstats.get('solves', 0)
                if xstats.get('real_cbc_infeasible_answers'):
                    agg.extra['real_cbc_infeasible_answers_in_crosscheck'] = \
                        agg.extra.get(
                            'real_cbc_infeasible_answers_in_crosscheck', 0) + \
                        xstats['real_cbc_infeasible_answers']
                for viol in v['violations']:
                    agg.violations.append((i, j, jsonable(viol), sc, lo))
                if len(agg.samples) < 3 and (v['nontrivial'] or i == lo):
                    agg.samples.append({'seed_index': i, 'scenario': sc,
                                        'digest': dg,
                                        'nontrivial': v['nontrivial']})
        except HarnessError as e:
            agg.harness.append((i, 'HarnessError: %s' % e))
            if 'cross-check' in str(e):
                agg.xmismatch += 1
        except Exception:
            agg.harness.append((i, traceback.format_exc()[-2000:]))
    return agg


def _preimport():
    """The parent imports the package (pristine module state) and never
    executes repository code itself: every chunk, and every confirming /
    minimising evaluation, runs in a child forked from this pristine state, so
    what a run sees depends only on what ran before it in the same chunk."""
    import props      # noqa: F401
    try:
        import matchingproblems.solver     # noqa: F401
        import matchingproblems.generator  # noqa: F401
    except Exception:
        pass


def _child(conn, fn, args):
    try:
        try:
            faulthandler.dump_traceback_later(3000, exit=True)
        except Exception:
            pass
        res = ('ok', fn(*args))
    except BaseException:
        res = ('err', traceback.format_exc()[-3000:])
    try:
        conn.send(res)
    finally:
        conn.close()
        os._exit(0)


def in_fresh_fork(fn, *args, timeout=3300):
    """fn(*args) in a child forked from the pristine parent."""
    ctx = multiprocessing.get_context('fork')
    rx, tx = ctx.Pipe(False)
    p = ctx.Process(target=_child, args=(tx, fn, args))
    p.start()
    tx.close()
    try:
        if rx.poll(timeout):
            kind, val = rx.recv()
        else:
            kind, val = 'err', 'child timed out after %ss' % timeout
    except EOFError:
        kind, val = 'err', 'child died without answering'
    finally:
        if p.is_alive() and not rx.poll(0):
            p.kill()
        p.join(30)
    if kind == 'err':
        raise HarnessError('isolated child failed: %s' % val)
    return val


CHUNK = {'C14': 10, 'C15': 25, 'C16': 100}


def run_batch(prop, tier, verif_seed, n, workers=None, chunk=None):
    from multiprocessing.connection import wait
    workers = workers or int(os.environ.get('VERIF_WORKERS', '0')) or \
        min(16, os.cpu_count() or 1)
    # the chunk size is part of the schedule (process history): it must not
    # depend on the number of workers
    chunk = chunk or CHUNK.get(prop, 100)
    tasks = [(prop, tier, verif_seed, lo, min(n, lo + chunk))
             for lo in range(0, n, chunk)]
    _preimport()
    ctx = multiprocessing.get_context('fork')
    results = [None] * len(tasks)
    pending = list(enumerate(tasks))
    running = {}
    while pending or running:
        while pending and len(running) < workers:
            idx, task = pending.pop(0)
            rx, tx = ctx.Pipe(False)
            p = ctx.Process(target=_child, args=(tx, run_chunk, (task,)))
            p.start()
            tx.close()
            running[idx] = (p, rx)
        ready = wait([rx for _, rx in running.values()], timeout=3400)
        if not ready:
            for idx, (p, rx) in running.items():
                p.kill()
                results[idx] = ('err', 'chunk timed out')
            running = {}
            continue
        for idx in list(running):
            p, rx = running[idx]
            if rx in ready:
                try:
                    results[idx] = rx.recv()
                except EOFError:
                    results[idx] = ('err', 'worker died (chunk %r)'
                                    % (tasks[idx],))
                p.join(30)
                del running[idx]
    total = Agg()
    for idx, (kind, val) in enumerate(results):
        if kind == 'ok':
            total.merge(val)
        else:
            total.harness.append((tasks[idx][3], 'chunk failed: %s' % val))
    return total


# ---------------------------------------------------------------------------
# minimisation and replay
# ---------------------------------------------------------------------------
def _eval_with_history(prop, history, sc):
    import props
    import execute
    spec = props.PROPS[prop]
    for h in history:
        try:
            execute.run(h)
        except BaseException:
            pass
    tr, v = spec.evaluate(sc)
    _cap(v)
    return {'violations': jsonable(v['violations']), 'digest': tr.digest()}


def has_signature(spec, sc, sig, history=()):
    """Evaluates sc after `history` in a child forked from the pristine
    parent.  Returns (digest, violation) if the signature shows, else None."""
    try:
        r = in_fresh_fork(_eval_with_history, spec.prop, list(history), sc,
                          timeout=900)
    except HarnessError:
        return None
    for viol in r['violations']:
        if signature(viol) == sig:
            return r['digest'], viol
    return None


MINIMISE_WALL_S = float(os.environ.get('VERIF_MINIMISE_WALL', '90'))


def minimise(spec, sc, sig, budget=400, history=()):
    cur = sc
    spent = 0
    improved = True
    deadline = time.time() + MINIMISE_WALL_S
    while improved and spent < budget and time.time() < deadline:
        improved = False
        for cand in spec.shrink(cur):
            spent += 1
            if spent > budget or time.time() > deadline:
                break
            if has_signature(spec, cand, sig, history) is not None:
                cur = cand
                improved = True
                break
    return cur, spent


def minimise_history(spec, sc, sig, history, budget=80):
    """ddmin over the list of scenarios executed earlier in the same process
    (the part of the schedule that is process history)."""
    cur = list(history)
    n = 2
    spent = 0
    deadline = time.time() + MINIMISE_WALL_S
    while len(cur) >= 1 and spent < budget and time.time() < deadline:
        size = max(1, len(cur) // n)
        reduced = False
        for start in range(0, len(cur), size):
            cand = cur[:start] + cur[start + size:]
            spent += 1
            if has_signature(spec, sc, sig, cand) is not None:
                cur = cand
                n = max(n - 1, 2)
                reduced = True
                break
            if spent >= budget:
                break
        if not reduced:
            if size == 1:
                break
            n = min(len(cur), n * 2)
    return cur, spent


def write_replay(prop, sc, sig, digest, detail, tag='min', history=()):
    os.makedirs(os.path.join(OUT, 'replays'), exist_ok=True)
    h = hashlib.sha256(sig.encode()).hexdigest()[:10]
    path = os.path.join(OUT, 'replays', '%s-%s.json' % (prop, h))
    doc = {'property': prop, 'signature': sig, 'digest': digest,
           'detail': jsonable(detail), 'scenario': sc}
    if sig.startswith('non-termination'):
        doc['wall_cap_s'] = 5.0
    if history:
        doc['history'] = list(history)
        doc['history_note'] = ('scenarios executed earlier in the same '
                               'process; the violation needs them (state '
                               'kept by the package between calls)')
    if isinstance(sc.get('inst'), dict):
        import instances
        doc['instance_text_for_readers'] = instances.render(sc['inst'])
    with open(path, 'w') as f:
        json.dump(doc, f, indent=1, sort_keys=True, default=jsonable)
    return path


def replay(prop, path):
    """Executes a replay file; returns (reproduced, same_digest, lines)."""
    import props
    spec = props.PROPS[prop]
    with open(path) as f:
        doc = json.load(f)
    sc = doc['scenario']
    import execute
    if doc.get('wall_cap_s'):
        execute.WALL_CAP = float(doc['wall_cap_s'])
    for h in doc.get('history', []):
        try:
            execute.run(h)
        except BaseException:
            pass
    tr, v = spec.evaluate(sc)
    _cap(v)
    sigs = [signature(x) for x in v['violations']]
    rep = doc['signature'] in sigs
    return rep, tr.digest() == doc.get('digest'), sigs, v


def replay_in_fresh_interpreter(prop, path):
    env = dict(os.environ)
    env['PYTHONHASHSEED'] = '0'
    p = subprocess.run([sys.executable, os.path.join(HERE, 'check.py'), prop,
                        '--replay', path, '--quiet'], env=env,
                       capture_output=True, text=True, timeout=600)
    return p.returncode, p.stdout + p.stderr


# ---------------------------------------------------------------------------
# evidence
# ---------------------------------------------------------------------------
def write_evidence(prop, spec, tier, verif_seed, n, agg, wall, violations_n,
                   notes=None):
    os.makedirs(os.path.join(OUT, 'evidence'), exist_ok=True)
    samples = []
    for s in agg.samples[:3]:
        samples.append(jsonable(s))
    cov = {
        'evaluations': agg.evaluations,
        'distinct_nontrivial': len(agg.nontrivial_digests),
        'rule': spec.rule,
        'samples': samples,
        'exhaustive': False,
        'base_scenarios': agg.base_scenarios,
        'seed_index_first': 0,
        'seed_index_last': n - 1,
        'runs_per_hour': int(agg.evaluations / max(wall, 1e-9) * 3600),
        'sim_seconds_covered': round(agg.sim_seconds, 3),
        'backend_rounds': agg.rounds,
        'faults_injected': dict(sorted(agg.fired.items())),
        'choice_policies': dict(sorted(agg.policies.items())),
        'probes': dict(sorted(agg.probes.items())),
        'skipped': dict(sorted(agg.skipped.items())),
        'distinct_event_digests': len(agg.all_digests),
        'distinct_programs_at_seam': len(agg.progs),
        'stub_crosscheck': {'solves': agg.xsolves,
                            'mismatches': agg.xmismatch},
        'stub_unsupported_fallbacks': agg.unsupported,
        'real_lane_runs': agg.real_lane,
        'components': spec.components,
    }
    for k, v in agg.extra.items():
        cov[k] = len(v) if isinstance(v, set) else v
    if 'tie_vectors' in agg.extra:
        cov['tie_vectors_possible_length_le_6'] = 127
        cov['tie_vectors_note'] = (
            'distinct (list length, decision vector) pairs with length <= 6 '
            'that went through writer and reader in this batch; seeded '
            'search with a coverage measure, not exhaustive enumeration')
    if notes:
        cov['notes'] = notes
    doc = {'property_id': prop, 'tier': tier, 'seed': verif_seed,
           'level': spec.level, 'coverage': cov,
           'assumptions': spec.assumptions, 'wall_s': round(wall, 2),
           'violations': violations_n}
    path = os.path.join(OUT, 'evidence', '%s.json' % prop)
    with open(path, 'w') as f:
        json.dump(doc, f, indent=1, sort_keys=True, default=jsonable)
    return path


# ---------------------------------------------------------------------------
# the check
# ---------------------------------------------------------------------------
def check(prop, tier, verif_seed, n=None, workers=None, out=sys.stdout):
    import props
    spec = props.PROPS[prop]
    n = n or spec.runs[tier]
    scale = float(os.environ.get('VERIF_SCALE', '1') or 1)
    if scale != 1:
        n = max(50, int(n * scale))
    t0 = time.time()
    print('property=%s tier=%s VERIF_SEED=%d runs=%d' % (prop, tier,
                                                         verif_seed, n),
          file=out)
    agg = run_batch(prop, tier, verif_seed, n, workers)
    wall = time.time() - t0
    known = [k for k in load_known() if k.get('property') == prop]
    open_sigs = dict((k['signature'], k) for k in known
                     if k.get('status') == 'open')
    by_sig = {}
    for i, j, viol, sc, lo in agg.violations:
        by_sig.setdefault(signature(viol), []).append((i, j, viol, sc, lo))
    exit_code = 0
    n_new = 0
    unreproducible = []
    for sig in sorted(by_sig):
        hits = by_sig[sig]
        if sig in open_sigs:
            print('KNOWN-FINDING: property=%s %s (%d runs; %s)' % (
                prop, sig, len(hits), open_sigs[sig].get('what', '')),
                file=out)
            continue
        n_new += 1
        i, j, viol, sc, lo = hits[0]
        budget = spec.min_budget.get(tier, 300)
        if sig.startswith('non-termination'):
            # every confirming run costs a full wall cap: shorten both
            import execute
            execute.WALL_CAP = min(execute.WALL_CAP, 5.0)
            os.environ['VERIF_WALL_CAP'] = str(execute.WALL_CAP)
            budget = 25
        if FAST_REPORT:
            # matrix runs over many mutants: report without minimising
            print('VIOLATION property=%s replay=(not written: '
                  'VERIF_FAST_REPORT)' % prop, file=out)
            print('  signature=%s runs=%d first_seed_index=%d' % (
                sig, len(hits), i), file=out)
            exit_code = max(exit_code, 1)
            continue
        history = []
        got = has_signature(spec, sc, sig)
        if got is None:
            # not reproducible on its own: the run may depend on what the
            # same process executed before it (state kept by the package
            # between calls).  Re-run the chunk prefix in a pristine child.
            chunk = CHUNK.get(prop, 100)
            try:
                r = in_fresh_fork(run_chunk, (prop, tier, verif_seed, lo,
                                              lo + chunk), (i, j))
            except HarnessError as e:
                r = {'violations': [], 'history': [], 'err': str(e)}
            if not isinstance(r, dict) or sig not in [
                    signature(x) for x in r.get('violations', [])]:
                uses_real = sc.get('backend', {}).get('policy') == 'real' \
                    or any(s_.get('backend', {}).get('policy') == 'real'
                           for s_ in sc.get('sessions', []))
                if uses_real:
                    # an observation on the real back end that does not
                    # repeat (machine load, safety limit): not a verdict
                    msg = ('NOTE: %s of seed index %d was observed once on '
                           'real CBC and did not reproduce (machine '
                           'dependent); not judged' % (sig, i))
                    print(msg, file=out)
                    unreproducible.append(msg)
                    n_new -= 1
                    continue
                print('HARNESS: violation %s of seed index %d did not '
                      'reproduce, neither alone nor after its chunk prefix'
                      % (sig, i), file=out)
                exit_code = max(exit_code, 2)
                continue
            history, hspent = minimise_history(spec, sc, sig, r['history'])
            print('  %s needs process history: %d earlier scenario(s) after '
                  'minimisation (%d before)' % (sig, len(history),
                                                len(r['history'])), file=out)
        if n_new > 6:
            budget = 0      # many distinct signatures: minimise the first six
        small, spent = minimise(spec, sc, sig, budget=budget,
                                history=history)
        got = has_signature(spec, small, sig, history)
        if got is None:
            small = sc
            got = has_signature(spec, sc, sig, history)
        if got is None:
            print('HARNESS: violation %s of seed index %d did not reproduce '
                  'in an isolated child' % (sig, i), file=out)
            exit_code = max(exit_code, 2)
            continue
        dg, viol2 = got
        path = write_replay(prop, small, sig, dg, viol2[2], history=history)
        rc, text = replay_in_fresh_interpreter(prop, path)
        if rc != 1:
            print('HARNESS: replay %s did not reproduce in a fresh '
                  'interpreter (rc=%s)\n%s' % (path, rc, text[-800:]),
                  file=out)
            exit_code = max(exit_code, 2)
            continue
        print('VIOLATION property=%s replay=%s' % (prop, path), file=out)
        print('  signature=%s runs=%d first_seed_index=%d minimise_steps=%d'
              % (sig, len(hits), i, spent), file=out)
        print('  detail=%s' % json.dumps(jsonable(viol2[2]),
                                         default=str)[:600], file=out)
        exit_code = max(exit_code, 1)
    for i, text in agg.harness[:5]:
        print('HARNESS-ERROR seed_index=%d\n%s' % (i, text), file=out)
    if agg.harness and exit_code != 1:
        # confirmed violations stand on their own replay files; harness
        # errors elsewhere in the batch are reported but do not mask them
        exit_code = 2
    notes = list(unreproducible)
    if agg.evaluations and \
            sum(agg.skipped.values()) > 0.5 * agg.evaluations:
        msg = ('NOTE: %d of %d runs were skipped for this property (%s): '
               'coverage collapsed' % (sum(agg.skipped.values()),
                                       agg.evaluations, agg.skipped))
        print(msg, file=out)
        notes.append(msg)
    for k in spec.required_probes:
        if not agg.probes.get(k):
            msg = 'NOTE: probe %s never fired in this batch' % k
            print(msg, file=out)
            notes.append(msg)
    ev = write_evidence(prop, spec, tier, verif_seed, n, agg, wall, n_new,
                        notes)
    print('runs=%d nontrivial_distinct=%d digests=%d programs=%d '
          'xcheck=%d/%d real_lane=%d wall=%.1fs (%d runs/h) evidence=%s' % (
              agg.evaluations, len(agg.nontrivial_digests),
              len(agg.all_digests), len(agg.progs), agg.xsolves,
              agg.xmismatch, agg.real_lane, wall,
              int(agg.evaluations / max(wall, 1e-9) * 3600), ev), file=out)
    if exit_code == 0:
        print('OK property=%s held on everything explored' % prop, file=out)
    return exit_code
