#!/venv/bin/python
"""Regenerates /verif/MANIFEST.json from the property registry."""
import json
import os
import sys

HERE = os.path.dirname(os.path.abspath(__file__))
sys.path.insert(0, HERE)
import props   # noqa: E402

PY = '/venv/bin/python'

TEXT = {
 'C01': ('Seeded deterministic simulation: the whole solver runs against a stand-in MILP back end that enumerates the optimal set of every program it is handed and returns any member (uniform / first / last / adversarial choice); the printed matching and every member of the final optimal set are checked against an independent validity definition. Sampling, not proof: bounded instances, seeded option sets.', '5/C01'),
 'C02': ('Seeded deterministic simulation over instance x option-set space with the back end at a seam; status and absence of exceptions compared with the reference feasible set on every run; duplicate-name programs are judged by real CBC. Sampling, not proof.', '5/C02'),
 'C03': ('Seeded deterministic simulation, one criterion per run; criterion value of the printed matching and of every member of the optimal set the back end may return compared with the exhaustive optimum of an independent reference model.', '5/C03'),
 'C04': ('Seeded deterministic simulation with 2..4 criteria, gapped positions, shuffled flags; printed matching and the final optimal set compared with the lexicographic optimum by successive filtering in the reference model; adversarial tie-break returns the optimum worst for earlier criteria.', '5/C04'),
 'C05': ('Seeded deterministic simulation with -stab; feasible set of the program handed to the back end compared in both directions with the reference set of stable valid matchings; printed matching checked for blocking pairs; per-clause ablation probes measure discrimination.', '5/C05'),
 'C06': ('Seeded deterministic simulation with a Byzantine back end that returns arbitrary quota-respecting assignments under -stab; the stability_correct line (the repository\'s own fault detector) must equal the reference verdict and no getter may raise; the library\'s stability check is also called directly on the loaded Model, several assignments in a row between solves and before the first solve, and each return value compared with the reference.', '5/C06 and 20'),
 'C08': ('Seeded deterministic simulation of the real generator under simulator-chosen RNG state; files captured through the file-system spy and parsed by an independent reference parser; structure, quota spreading, tie extremes and reachability of every list length checked; size sweep 13..1500 agents and a giant lane with more than 65535 first-side agents.', '5/C08 and 20'),
 'C09': ('Seeded deterministic simulation of the pipeline generator -> file -> solver (LP mode on the stand-in back end and brute-force mode) in one simulated world; loaded model compared with the reference parse, results with the reference semantics.', '5/C09'),
 'C11': ('Seeded deterministic simulation; short/long result text re-derived from instance file and printed matching line over the diverse matchings the back-end seam produces (uniform tie-break, no criteria half of the time).', '5/C11'),
 'C12': ('Seeded deterministic simulation of the real generator (two-sided sm/hr/spa); second-side lists compared with first-side lists of the same captured file; size sweep 13..1500 agents and a giant lane with more than 65535 first-side agents.', '5/C12 and 20'),
 'C13': ('Seeded deterministic simulation: tie decisions are RNG draws; the (list, decisions) -> strings calls of the writer are observed, the same file is loaded by the real solver and ranks compared; coverage of the 2^n decision space is measured; five-digit ids, a size sweep and a giant lane with more than 65535 first-side agents (file generated, then only loaded).', '5/C13 and 20'),
 'C14': ('Fault enumeration at the back-end seam: for each seeded scenario every single fault (round x kind x transient/persistent x value mode; kinds: Infeasible, Unbounded, Undefined, Not Solved, time-limit stop with and without incumbent, and a crash of the solver process = PulpSolverError out of actualSolve) and every pair of faults for up to two (thorough: three) underlying solves, a seeded sample beyond, is injected under a simulated clock; the result text is checked against the recorded history.', '5/C14 and 20'),
 'C15': ('Seeded deterministic simulation of argument vectors and all single-fault perturbations; acceptance or SystemExit(2); the file-system spy proves nothing was written before a rejection.', '5/C15'),
 'C16': ('Seeded deterministic simulation of position assignments x flag permutations; order of performed/reported criteria, refusal before the instance is opened (spy), reported prefix under an injected non-optimal solve.', '5/C16'),
 'C18': ('Seeded API histories (solve / four getters) with clock advances and a back end that changes its tie-break on every solve; getters must be idempotent between solves and re-solving must reproduce status and criterion values; in one history of four the solves carry different limits, some binding (back end stops on its limit; limit below the elapsed time), and a solve may die at its k-th underlying solve - the full solves around a cut-short or crashed one must reproduce the first.', '5/C18 and 20'),
}

TECH = 'deterministic simulation with fault injection (seeded search over scenarios, back-end tie-breaks, injected solver faults and simulated clock; replayable minimised scenario)'

NOTE = ('trusted: the independent reference model sim/refmodel.py (bounded exhaustive enumeration), the stand-in MILP back end sim/milp_stub.py '
        '(cross-checked against real CBC in every batch, counters in evidence), PuLP modelling layer, CPython. Seams are reached by module-attribute '
        'patching and an audit hook, no source hook in /repo. Sampling, not proof: a seeded search finds what its scenario space contains '
        '(DESIGN.md 17 lists ten seeded defects it does not reach and why). Real CBC answers are validated against the program before they are '
        'believed (DESIGN.md note N2). Process history inside a chunk of seed indices is part of the schedule and of the replay file.')

NOT_APPLICABLE = [
  {"property_id": "C07", "reason": "brute-force statistics are a pure function of the instance file and -pc: no back end, clock, RNG, I/O fault or call history for a simulator to own (DESIGN.md 5/C07); its shadow runs inside C09 and C18"},
  {"property_id": "C10", "reason": "reading a caller-supplied well-formed file is a pure function of the file: no schedule, fault or other party (DESIGN.md 5/C10); shadow: C09 and C13 compare the loaded model with an independent parse"},
  {"property_id": "C17", "reason": "create_linear_distribution(n, s) is a pure numeric function (DESIGN.md 5/C17)"},
]


def main():
    checks = []
    for pid in sorted(props.PROPS):
        spec = props.PROPS[pid]
        text, ref = TEXT[pid]
        checks.append({
            'property_id': pid,
            'quick_cmd': '%s sim/check.py %s --tier quick' % (PY, pid),
            'thorough_cmd': '%s sim/check.py %s --tier thorough' % (PY, pid),
            'evidence_file': 'evidence/%s.json' % pid,
            'replay_cmd_template': '%s sim/check.py %s --replay {path}' % (PY, pid),
            'engine': 'mpsim',
            'level_claimed': {'category': spec.level, 'text': text,
                              'design_ref': 'DESIGN.md section ' + ref},
            'level_note': NOTE,
            'technique': TECH,
        })
    claimed = set(c['property_id'] for c in checks)
    na = list(NOT_APPLICABLE)
    all_ids = ['C%02d' % i for i in range(1, 19)]
    for pid in all_ids:
        if pid not in claimed and pid not in [x['property_id'] for x in na]:
            na.append({'property_id': pid,
                       'reason': 'check not built yet in this commit; planned in DESIGN.md section 5/%s' % pid})
    doc = {
        'version': 1,
        'setup_cmd': '%s -m compileall -q sim' % PY,
        'hooks': {
            'guard': 'FMCOOPER_MATCHINGPROBLEMS_VERIF',
            'enable': 'no source hooks: every seam is reached by module-attribute patching / audit hook from the harness process (DESIGN.md 2.1); the variable is reserved and unused',
            'baseline_off_cmd': 'cd /repo && /venv/bin/python -m pytest -ra -q -p no:cacheprovider --timeout=900 --continue-on-collection-errors',
            'source_commits': [],
            'add_only': True,
        },
        'engines': [{
            'name': 'mpsim', 'path': 'sim/',
            'serves_properties': sorted(claimed),
            'kind_free_text': 'single-process deterministic simulator: seeded scenarios, stand-in enumerating MILP back end with fault injection at COIN_CMD.actualSolve, simulated clock, seeded generator RNG, audit-hook file-system spy, independent reference model, own minimiser and replay files',
        }],
        'checks': checks,
        'not_applicable': sorted(na, key=lambda x: x['property_id']),
        'notes': 'exit 2 from a check means a harness problem (never a verdict). known_findings.json lists genuine defects (all repaired by fix: commits in /repo so far).',
    }
    with open(os.path.join(os.path.dirname(HERE), 'MANIFEST.json'), 'w') as f:
        json.dump(doc, f, indent=1)
    print('wrote MANIFEST.json with %d checks' % len(checks))


if __name__ == '__main__':
    main()
