"""Reference model (oracle) for SPA-STL instances.

Independent of the repository: imports nothing from matchingproblems.  Own
parser of the documented file grammar, exhaustive enumeration of assignments,
validity (with / without project closures), SPA-STL blocking pairs written from
the thesis definition (conditions 2, 3a, 3b, 3c), statistics, criterion keys and
lexicographic filtering.  Every clause of the definitions can be ablated; the
checks use that to count scenarios that actually discriminate a clause.
"""
import itertools

CRITERIA = ('maxsize', 'minsize', 'gen', 'gre', 'mincost', 'minsqcost',
            'lmb', 'lsb', 'mincostlsb')


class ParseError(Exception):
    pass


class Inst(object):
    __slots__ = ('na', 'twopl', 'n1', 'n2', 'n3', 'prefs', 'plq', 'puq',
                 'plec', 'llq', 'lt', 'luq', 'lrank', 'lec_lists', 'maxrank',
                 'trailer', 'srank_map')


def parse_list(tokens):
    """Tokens of one preference list -> [(agent, rank)], dense tie-aware ranks.

    Also validates the parenthesis structure (balanced, non nested, groups of
    at least two)."""
    items = []
    rank = 0
    in_tie = False
    group_len = 0
    for t in tokens:
        o = t.startswith('(')
        c = t.endswith(')')
        body = t.strip('()')
        if t.count('(') > 1 or t.count(')') > 1 or (o and c):
            raise ParseError('bad tie token %r' % t)
        if not body.isdigit():
            raise ParseError('bad token %r' % t)
        if o and in_tie:
            raise ParseError('nested tie')
        if c and not in_tie:
            raise ParseError('unbalanced )')
        if not in_tie:
            rank += 1
            group_len = 0
        items.append((int(body), rank))
        group_len += 1
        if o:
            in_tie = True
        if c:
            if group_len < 2:
                raise ParseError('tie group of one')
            in_tie = False
    if in_tie:
        raise ParseError('unbalanced (')
    return items


def _fields(line):
    return line.replace(':', ' ').split()


def parse(text, na, twopl):
    """Parse an instance file text the way the README documents it."""
    L = text.split('\n')
    I = Inst()
    I.na = na
    I.twopl = twopl
    h = L[0].split()
    I.n1 = int(h[0])
    I.n2 = int(h[1])
    I.n3 = int(h[2]) if na == 3 else I.n2
    I.prefs = []
    for i in range(I.n1):
        t = _fields(L[1 + i])
        if int(t[0]) != i + 1:
            raise ParseError('student line numbering')
        I.prefs.append(parse_list(t[1:]))
    I.plq = []
    I.puq = []
    I.plec = []
    I.llq = []
    I.lt = []
    I.luq = []
    I.lrank = {}
    I.lec_lists = []
    for j in range(I.n2):
        t = _fields(L[1 + I.n1 + j])
        if int(t[0]) != j + 1:
            raise ParseError('project line numbering')
        I.plq.append(int(t[1]))
        I.puq.append(int(t[2]))
        if na == 3:
            I.plec.append(int(t[3]))
            if len(t) != 4:
                raise ParseError('project line has extra tokens')
        else:
            I.plec.append(j + 1)
            I.llq.append(int(t[1]))
            I.lt.append(int(t[2]))
            I.luq.append(int(t[2]))
            lst = parse_list(t[3:])
            I.lec_lists.append(lst)
            if twopl:
                for s, r in lst:
                    I.lrank[(j + 1, s)] = r
    if na == 3:
        for k in range(I.n3):
            t = _fields(L[1 + I.n1 + I.n2 + k])
            if int(t[0]) != k + 1:
                raise ParseError('lecturer line numbering')
            I.llq.append(int(t[1]))
            I.lt.append(int(t[2]))
            I.luq.append(int(t[3]))
            lst = parse_list(t[4:])
            I.lec_lists.append(lst)
            if twopl:
                for s, r in lst:
                    I.lrank[(k + 1, s)] = r
    rest = L[1 + I.n1 + I.n2 + (I.n3 if na == 3 else 0):]
    I.trailer = [x for x in rest if x.strip()]
    I.maxrank = max([r for p in I.prefs for _, r in p] or [0])
    I.srank_map = [dict(p) for p in I.prefs]
    return I


def space_size(I):
    n = 1
    for p in I.prefs:
        n *= len(p) + 1
    return n


def all_assignments(I):
    opts = [[0] + [p for p, _ in pl] for pl in I.prefs]
    return itertools.product(*opts)


def counts(I, M):
    pc = [0] * I.n2
    lc = [0] * I.n3
    for p in M:
        if p:
            pc[p - 1] += 1
            lc[I.plec[p - 1] - 1] += 1
    return pc, lc


def acceptable(I, M):
    """Every student has 0 or a project on the own list."""
    if len(M) != I.n1:
        return False
    for i, p in enumerate(M):
        if p and p not in I.srank_map[i]:
            return False
    return True


def valid(I, M, pcopt, abl=()):
    """M: tuple, M[i] = project id of student i+1 or 0."""
    if not acceptable(I, M):
        return False
    pc, lc = counts(I, M)
    for j in range(I.n2):
        if pcopt and pc[j] == 0 and 'no_closure' not in abl:
            continue
        if 'no_plq' not in abl and pc[j] < I.plq[j]:
            return False
        if 'no_puq' not in abl and pc[j] > I.puq[j]:
            return False
    for k in range(I.n3):
        if 'no_llq' not in abl and lc[k] < I.llq[k]:
            return False
        if 'no_luq' not in abl and lc[k] > I.luq[k]:
            return False
    return True


def validity_breaches(I, M, pcopt):
    """Human readable list of what makes M invalid (empty if valid)."""
    out = []
    if len(M) != I.n1:
        return ['length']
    for i, p in enumerate(M):
        if p and p not in I.srank_map[i]:
            out.append('s%d->p%d not acceptable' % (i + 1, p))
    if out:
        return out
    pc, lc = counts(I, M)
    for j in range(I.n2):
        if pcopt and pc[j] == 0:
            continue
        if pc[j] < I.plq[j]:
            out.append('p%d below lower quota' % (j + 1))
        if pc[j] > I.puq[j]:
            out.append('p%d above upper quota' % (j + 1))
    for k in range(I.n3):
        if lc[k] < I.llq[k]:
            out.append('l%d below lower quota' % (k + 1))
        if lc[k] > I.luq[k]:
            out.append('l%d above upper quota' % (k + 1))
    return out


def blocking_pairs(I, M, abl=(), first_only=False):
    """SPA-STL blocking pairs of assignment M (thesis p.22).

    (s_i, p_j), p_j acceptable to s_i, blocks M iff
      2.  s_i is unassigned or strictly prefers p_j to M(s_i), and
      3a. p_j and l_k are both undersubscribed, or
      3b. p_j undersubscribed, l_k full, and s_i in M(l_k) or l_k strictly
          prefers s_i to the worst student in M(l_k), or
      3c. p_j full and l_k strictly prefers s_i to the worst student in M(p_j).
    An empty M(l_k) / M(p_j) has no worst student, so "prefers" is false.
    Returns list of (student, project, clause)."""
    pc, lc = counts(I, M)
    out = []
    lrank = I.lrank
    plec = I.plec
    for i in range(I.n1):
        cur = I.srank_map[i][M[i]] if M[i] else None
        for p, r in I.prefs[i]:
            if cur is not None:
                if 'weak_student' in abl:
                    if r > cur or p == M[i]:
                        continue
                elif r >= cur:
                    continue
            k = plec[p - 1]
            p_under = pc[p - 1] < I.puq[p - 1]
            l_under = lc[k - 1] < I.luq[k - 1]
            mine = lrank[(k, i + 1)]
            clause = None
            if p_under and l_under:
                if 'no_3a' not in abl:
                    clause = '3a'
            elif p_under and not l_under:
                if 'no_3b' not in abl:
                    if (M[i] and plec[M[i] - 1] == k and
                            'no_3b_same_lec' not in abl):
                        clause = '3b-in'
                    else:
                        ws = [lrank[(k, s + 1)] for s in range(I.n1)
                              if M[s] and plec[M[s] - 1] == k]
                        if ws:
                            w = max(ws)
                            if mine < w or ('weak_lec' in abl and mine <= w):
                                clause = '3b-pref'
            else:
                if 'no_3c' not in abl:
                    ws = [lrank[(k, s + 1)] for s in range(I.n1) if M[s] == p]
                    if ws:
                        w = max(ws)
                        if mine < w or ('weak_lec' in abl and mine <= w):
                            clause = '3c'
            if clause:
                out.append((i + 1, p, clause))
                if first_only:
                    return out
    return out


def stable(I, M, abl=()):
    return not blocking_pairs(I, M, abl, first_only=True)


def measures(I, M):
    prof = [0] * I.maxrank
    cs = cl = qs = ql = 0
    deg = 0
    size = 0
    for i, p in enumerate(M):
        if p:
            r = I.srank_map[i][p]
            prof[r - 1] += 1
            cs += r
            qs += r * r
            size += 1
            if r > deg:
                deg = r
            if I.twopl:
                lr = I.lrank[(I.plec[p - 1], i + 1)]
                cl += lr
                ql += lr * lr
    pc, lc = counts(I, M)
    d = [abs(lc[k] - I.lt[k]) for k in range(I.n3)]
    return dict(size=size, profile=prof, cost=(cs, cl), cost_sq=(qs, ql),
                degree=deg, maxd=max(d or [0]), sumd=sum(d), pc=pc, lc=lc)


def key(I, m, crit, extra):
    """Value the criterion minimises (tuple, smaller is better)."""
    extra = extra or []
    if crit == 'maxsize':
        return (-m['size'],)
    if crit == 'minsize':
        return (m['size'],)
    if crit == 'gen':
        c = extra[0] if extra else 1
        return tuple(m['profile'][r - 1]
                     for r in range(I.maxrank, max(0, c - 1), -1))
    if crit == 'gre':
        c = extra[0] if extra else I.maxrank
        return tuple(-m['profile'][r - 1]
                     for r in range(1, min(c, I.maxrank) + 1))
    if crit == 'mincost':
        a = extra[0] if len(extra) > 0 else 1
        b = extra[1] if len(extra) > 1 else 0
        return (a * m['cost'][0] + b * m['cost'][1],)
    if crit == 'minsqcost':
        a = extra[0] if len(extra) > 0 else 1
        b = extra[1] if len(extra) > 1 else 0
        return (a * m['cost_sq'][0] + b * m['cost_sq'][1],)
    if crit == 'lmb':
        return (m['maxd'],)
    if crit == 'lsb':
        return (m['sumd'],)
    if crit == 'mincostlsb':
        a = extra[0] if len(extra) > 0 else 1
        b = extra[1] if len(extra) > 1 else 1
        return (a * m['cost'][0] + b * m['sumd'],)
    raise ValueError(crit)


class World(object):
    """All assignments of one instance with cached validity/stability/measures."""

    def __init__(self, I):
        self.I = I
        self.all = list(all_assignments(I))
        self._meas = {}
        self._valid = {}
        self._stable = {}

    def meas(self, M):
        m = self._meas.get(M)
        if m is None:
            m = self._meas[M] = measures(self.I, M)
        return m

    def valid_set(self, pc, abl=()):
        k = (pc, tuple(abl))
        v = self._valid.get(k)
        if v is None:
            v = self._valid[k] = [M for M in self.all
                                  if valid(self.I, M, pc, abl)]
        return v

    def stable_subset(self, Ms, abl=()):
        out = []
        for M in Ms:
            k = (M, tuple(abl))
            s = self._stable.get(k)
            if s is None:
                s = self._stable[k] = stable(self.I, M, abl)
            if s:
                out.append(M)
        return out

    def feasible(self, pc, stab, abl_v=(), abl_s=()):
        F = self.valid_set(pc, abl_v)
        if stab:
            F = self.stable_subset(F, abl_s)
        return F

    def lex_filter(self, F, criteria):
        """criteria: list of (name, extra) in execution order.  Returns
        (final set, [best key per criterion], [set size after each])."""
        cur = list(F)
        bests = []
        sizes = []
        for name, extra in criteria:
            if not cur:
                bests.append(None)
                sizes.append(0)
                continue
            ks = [(key(self.I, self.meas(M), name, extra), M) for M in cur]
            b = min(k for k, _ in ks)
            cur = [M for k, M in ks if k == b]
            bests.append(b)
            sizes.append(len(cur))
        return cur, bests, sizes

    def key_vector(self, M, criteria):
        m = self.meas(M)
        return [key(self.I, m, n, e) for n, e in criteria]


def brute_force_expect(W, pc):
    """What brute-force mode is documented to print (C07/C09 shadow)."""
    I = W.I
    F = W.valid_set(pc)
    if not F:
        return None
    ms = [W.meas(M) for M in F]
    best_size = max(m['size'] for m in ms)
    top = [m for m in ms if m['size'] == best_size]

    def gen_key(m):
        return tuple(reversed(m['profile']))

    def gre_key(m):
        return tuple(-x for x in m['profile'])
    return dict(
        optimal_size=best_size,
        optimal_maxsizemincost=min(m['cost'] for m in top),
        optimal_maxsizemindegree=min(m['degree'] for m in top),
        optimal_maxsizeminsqcost=min(m['cost_sq'] for m in top),
        optimal_generousmaxprofile=min(top, key=gen_key)['profile'],
        optimal_greedymaxprofile=min(top, key=gre_key)['profile'],
        optimal_greedyprofile=min(ms, key=gre_key)['profile'],
        optimal_max_lec_abs_diff=min(m['maxd'] for m in ms),
        optimal_sum_lec_abs_diff=min(m['sumd'] for m in ms),
    )
