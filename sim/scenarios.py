"""Seeded scenario builders (swarm style: each run first draws which features
are enabled, so runs differ in kind, not just in numbers)."""
import random

import instances
import refmodel as rm

CRIT = list(rm.CRITERIA)
POLICIES = ('uniform', 'uniform', 'adversarial', 'adversarial', 'first',
            'last')


def maxrank_of(inst):
    return max([len(g) for g in inst['students']] or [0])


def gen_extra(rng, name, maxrank, always=False):
    if name == 'gen':
        if always or rng.random() < 0.5:
            return [rng.randint(1, max(1, maxrank))]
        return []
    if name == 'gre':
        if always or rng.random() < 0.5:
            return [rng.randint(1, maxrank + 2)]
        return []
    if name in ('mincost', 'minsqcost', 'mincostlsb'):
        k = 2 if always else rng.choice([0, 0, 1, 2, 2])
        return [rng.randint(0, 3) for _ in range(k)]
    return []


def gen_criteria(rng, k, maxrank, names=None, pool=None):
    pool = pool or CRIT
    if names is None:
        names = rng.sample(pool, k)
    pos = rng.sample(range(1, 10), len(names))
    if rng.random() < 0.3:
        pos = sorted(pos)          # ungapped-ish orders also occur
    out = []
    for n, p in zip(names, pos):
        out.append({'name': n, 'pos': p, 'extra': gen_extra(rng, n, maxrank)})
    return out


def gen_opts(rng, inst, ncrit=None, stab=None, pc=None, pool=None):
    mr = maxrank_of(inst)
    if ncrit is None:
        ncrit = rng.choice([0, 1, 1, 2, 2, 3, 4])
    opts = {'criteria': gen_criteria(rng, ncrit, mr, pool=pool),
            'pc': (rng.random() < 0.35) if pc is None else pc,
            'stab': ((rng.random() < 0.4) if stab is None else stab)
            and inst['twopl']}
    n_groups = len(opts['criteria']) + 4
    order = list(range(n_groups))
    rng.shuffle(order)
    opts['flag_order'] = order
    return opts


def lp_base(rng, inst, opts, ops=None, policy=None):
    return {'family': 'lp', 'inst': inst, 'na': inst['na'],
            'twopl': inst['twopl'], 'opts': opts,
            'ops': ops or [['solve', {}], ['get_results'],
                           ['get_results_long']],
            'backend': {'policy': policy or rng.choice(POLICIES),
                        'choice_seed': rng.randrange(2 ** 31),
                        'duration_seed': rng.randrange(2 ** 31)},
            'clock_seed': rng.randrange(2 ** 31)}


def build_c01(rng, tier):
    sw = {'zero_cap': rng.random() < 0.4, 'lowq': rng.random() < 0.6}
    inst = instances.gen_instance(rng, sw, thorough=(tier == 'thorough'))
    return lp_base(rng, inst, gen_opts(rng, inst))


def build_c02(rng, tier):
    sw = {}
    inst = instances.gen_instance(rng, sw, thorough=(tier == 'thorough'))
    ncrit = rng.choice([0, 1, 1, 2, 2, 3, 4, 5, 9])
    opts = gen_opts(rng, inst, ncrit=min(ncrit, 9))
    ops = [['solve', {}], ['get_results'], ['get_results_long'],
           ['get_results_short']]
    return lp_base(rng, inst, opts, ops=ops)


def build_c03(rng, tier):
    inst = instances.gen_instance(rng, {}, thorough=(tier == 'thorough'))
    name = rng.choice(CRIT)
    mr = maxrank_of(inst)
    crit = [{'name': name, 'pos': rng.randint(1, 9),
             'extra': gen_extra(rng, name, mr)}]
    opts = {'criteria': crit, 'pc': rng.random() < 0.3,
            'stab': rng.random() < 0.35 and inst['twopl']}
    order = list(range(5))
    rng.shuffle(order)
    opts['flag_order'] = order
    return lp_base(rng, inst, opts)


def build_c04(rng, tier):
    inst = instances.gen_instance(rng, {}, thorough=(tier == 'thorough'))
    opts = gen_opts(rng, inst, ncrit=rng.choice([2, 2, 2, 3, 3, 4]))
    return lp_base(rng, inst, opts)


def build_c05(rng, tier):
    sw = {'twopl': True, 'ties2': rng.choice([0, .3, .5, .7, 1]),
          'zero_cap': rng.random() < 0.35}
    inst = instances.gen_instance(rng, sw, thorough=(tier == 'thorough'))
    pool = ['maxsize', 'minsize']
    opts = gen_opts(rng, inst, ncrit=rng.choice([0, 0, 1, 1, 2]), stab=True,
                    pool=pool)
    opts['stab'] = True
    return lp_base(rng, inst, opts)


def build_c11(rng, tier):
    inst = instances.gen_instance(rng, {}, thorough=(tier == 'thorough'))
    if rng.random() < 0.5:
        opts = gen_opts(rng, inst, ncrit=0, stab=False)
        policy = 'uniform'
    else:
        opts = gen_opts(rng, inst)
        policy = rng.choice(['uniform', 'first', 'last'])
    ops = [['solve', {}], ['get_results'], ['get_results_short'],
           ['get_results_long']]
    return lp_base(rng, inst, opts, ops=ops, policy=policy)


BUILDERS = {'C01': build_c01, 'C02': build_c02, 'C03': build_c03,
            'C04': build_c04, 'C05': build_c05, 'C11': build_c11}
