"""Seeded scenario builders (swarm style: each run first draws which features
are enabled, so runs differ in kind, not just in numbers)."""
import random

import instances
import refmodel as rm

CRIT = list(rm.CRITERIA)
POLICIES = ('uniform', 'uniform', 'adversarial', 'adversarial', 'first',
            'last')


def maxrank_of(inst):
    return max([len(g) for g in inst['students']] or [0])


def gen_extra(rng, name, maxrank, always=False):
    if name == 'gen':
        if always or rng.random() < 0.5:
            return [rng.randint(1, max(1, maxrank))]
        return []
    if name == 'gre':
        if always or rng.random() < 0.5:
            return [rng.randint(1, maxrank + 2)]
        return []
    if name in ('mincost', 'minsqcost', 'mincostlsb'):
        k = 2 if always else rng.choice([0, 0, 1, 2, 2])
        return [rng.randint(0, 3) for _ in range(k)]
    return []


def gen_criteria(rng, k, maxrank, names=None, pool=None):
    pool = pool or CRIT
    if names is None:
        names = rng.sample(pool, k)
    pos = rng.sample(range(1, 10), len(names))
    if rng.random() < 0.3:
        pos = sorted(pos)          # ungapped-ish orders also occur
    out = []
    for n, p in zip(names, pos):
        out.append({'name': n, 'pos': p, 'extra': gen_extra(rng, n, maxrank)})
    return out


def gen_opts(rng, inst, ncrit=None, stab=None, pc=None, pool=None):
    mr = maxrank_of(inst)
    if ncrit is None:
        ncrit = rng.choice([0, 1, 1, 2, 2, 3, 4])
    opts = {'criteria': gen_criteria(rng, ncrit, mr, pool=pool),
            'pc': (rng.random() < 0.35) if pc is None else pc,
            'stab': ((rng.random() < 0.4) if stab is None else stab)
            and inst['twopl']}
    n_groups = len(opts['criteria']) + 4
    order = list(range(n_groups))
    rng.shuffle(order)
    opts['flag_order'] = order
    return opts


def lp_base(rng, inst, opts, ops=None, policy=None):
    return {'family': 'lp', 'inst': inst, 'na': inst['na'],
            'twopl': inst['twopl'], 'opts': opts,
            'ops': ops or [['solve', {}], ['get_results'],
                           ['get_results_long']],
            'backend': {'policy': policy or rng.choice(POLICIES),
                        'choice_seed': rng.randrange(2 ** 31),
                        'duration_seed': rng.randrange(2 ** 31)},
            'clock_seed': rng.randrange(2 ** 31)}


def build_c01(rng, tier):
    sw = {'zero_cap': rng.random() < 0.4, 'lowq': rng.random() < 0.6}
    inst = instances.gen_instance(rng, sw, thorough=(tier == 'thorough'))
    return lp_base(rng, inst, gen_opts(rng, inst))


def build_c02(rng, tier):
    sw = {}
    inst = instances.gen_instance(rng, sw, thorough=(tier == 'thorough'))
    ncrit = rng.choice([0, 1, 1, 2, 2, 3, 4, 5, 9])
    opts = gen_opts(rng, inst, ncrit=min(ncrit, 9))
    ops = [['solve', {}], ['get_results'], ['get_results_long'],
           ['get_results_short']]
    return lp_base(rng, inst, opts, ops=ops)


def build_c03(rng, tier):
    inst = instances.gen_instance(rng, {}, thorough=(tier == 'thorough'))
    name = rng.choice(CRIT)
    mr = maxrank_of(inst)
    crit = [{'name': name, 'pos': rng.randint(1, 9),
             'extra': gen_extra(rng, name, mr)}]
    opts = {'criteria': crit, 'pc': rng.random() < 0.3,
            'stab': rng.random() < 0.35 and inst['twopl']}
    order = list(range(5))
    rng.shuffle(order)
    opts['flag_order'] = order
    return lp_base(rng, inst, opts)


def build_c04(rng, tier):
    inst = instances.gen_instance(rng, {}, thorough=(tier == 'thorough'))
    opts = gen_opts(rng, inst, ncrit=rng.choice([2, 2, 2, 3, 3, 4]))
    return lp_base(rng, inst, opts)


def build_c05(rng, tier):
    sw = {'twopl': True, 'ties2': rng.choice([0, .3, .5, .7, 1]),
          'zero_cap': rng.random() < 0.35}
    inst = instances.gen_instance(rng, sw, thorough=(tier == 'thorough'))
    pool = ['maxsize', 'minsize']
    opts = gen_opts(rng, inst, ncrit=rng.choice([0, 0, 1, 1, 2]), stab=True,
                    pool=pool)
    opts['stab'] = True
    return lp_base(rng, inst, opts)


def build_c11(rng, tier):
    inst = instances.gen_instance(rng, {}, thorough=(tier == 'thorough'))
    if rng.random() < 0.5:
        opts = gen_opts(rng, inst, ncrit=0, stab=False)
        policy = 'uniform'
    else:
        opts = gen_opts(rng, inst)
        policy = rng.choice(['uniform', 'first', 'last'])
    ops = [['solve', {}], ['get_results'], ['get_results_short'],
           ['get_results_long']]
    return lp_base(rng, inst, opts, ops=ops, policy=policy)


BUILDERS = {'C01': build_c01, 'C02': build_c02, 'C03': build_c03,
            'C04': build_c04, 'C05': build_c05, 'C11': build_c11}


# ---------------------------------------------------------------------------
# C14: fault plans under a simulated clock
# ---------------------------------------------------------------------------
STATUS_FAULTS = ['status:Infeasible', 'status:Unbounded', 'status:Undefined',
                 'status:Not Solved']
VALUE_MODES = ['zeros', 'stale', 'garbage']
LIMITS = [5, 60.0, 600, 3600.0]


def build_c14(rng, tier):
    inst = instances.gen_instance(rng, {}, thorough=False)
    mr = maxrank_of(inst)
    k = rng.choice([0, 1, 1, 2, 2, 3])
    pool = CRIT + ['gen', 'gre', 'gen', 'gre']
    names = []
    while len(names) < k:
        n = rng.choice(pool)
        if n not in names:
            names.append(n)
    opts = {'criteria': gen_criteria(rng, k, mr, names=names),
            'pc': rng.random() < 0.25,
            'stab': rng.random() < 0.3 and inst['twopl']}
    limit = rng.choice([None] + LIMITS + LIMITS)
    ops = [['solve', {'timeLimit': limit}], ['get_results'],
           ['get_results_short'], ['get_results_long']]
    sc = lp_base(rng, inst, opts, ops=ops, policy='uniform')
    sc['limit'] = limit
    return sc


def clock_plan(rng, limit, K):
    n = K + 3
    if limit is None:
        return [10 ** rng.uniform(-5, 4) for _ in range(n)]
    mode = rng.choice(['fast', 'fast', 'one-long', 'sum-exceeds',
                       'slow-under'])
    if mode == 'fast':
        return [10 ** rng.uniform(-5, -2) for _ in range(n)]
    if mode == 'one-long':
        d = [10 ** rng.uniform(-5, -2) for _ in range(n)]
        d[rng.randrange(max(1, K))] = limit * rng.uniform(1.5, 10)
        return d
    if mode == 'sum-exceeds':
        return [limit * rng.uniform(0.3, 0.7) for _ in range(n)]
    return [limit * 0.8 / n * rng.uniform(0.2, 1.0) for _ in range(n)]


def c14_plans(rng, K, limit, tier):
    """All single faults, plus a seeded sample of pairs."""
    kinds = list(STATUS_FAULTS)
    if limit is not None:
        kinds += ['tl-incumbent', 'tl-no-incumbent']
    plans = []
    for pos in range(1, K + 1):
        for kind in kinds:
            for persist in (False, True):
                modes = VALUE_MODES if tier == 'thorough' else \
                    [rng.choice(VALUE_MODES)]
                for vm in modes:
                    plans.append([{'round': pos, 'kind': kind,
                                   'persist': persist, 'values': vm}])
    npairs = 12 if tier == 'thorough' else 4
    for _ in range(npairs if K >= 1 else 0):
        a = rng.randint(1, K)
        b = rng.randint(1, K + 1)
        if a == b:
            b = a + 1
        plans.append([{'round': a, 'kind': rng.choice(kinds),
                       'persist': False, 'values': rng.choice(VALUE_MODES)},
                      {'round': b, 'kind': rng.choice(kinds),
                       'persist': rng.random() < 0.5,
                       'values': rng.choice(VALUE_MODES)}])
    return plans


# ---------------------------------------------------------------------------
# C16: criteria order and refusals
# ---------------------------------------------------------------------------
def build_c16(rng, tier):
    kind = rng.choice(['order', 'order', 'order', 'refuse', 'refuse',
                       'fault-prefix'])
    inst = instances.gen_instance(rng, {}, thorough=False)
    mr = maxrank_of(inst)
    if kind in ('order', 'fault-prefix'):
        k = rng.choice([1, 2, 2, 3, 3, 4, 5, 9])
        opts = gen_opts(rng, inst, ncrit=k)
        for c in opts['criteria']:
            if c['name'] in ('gen', 'gre') and rng.random() < 0.5:
                c['extra'] = gen_extra(rng, c['name'], mr, always=True)
        sc = lp_base(rng, inst, opts, ops=[['solve', {}], ['get_results'],
                                           ['get_results_long']])
        sc['c16'] = kind
        return sc
    # refusals
    why = rng.choice(['pos-out-of-range', 'pos-out-of-range', 'duplicate-pos',
                      'stab-without-twopl'])
    k = rng.choice([1, 2, 3, 4])
    opts = gen_opts(rng, inst, ncrit=k, stab=False)
    crit = opts['criteria']
    twopl = inst['twopl']
    if why == 'pos-out-of-range':
        c = rng.choice(crit)
        c['pos'] = rng.choice([-1, 0, 10, 11, -5, 12, 100])
    elif why == 'duplicate-pos':
        if len(crit) < 2:
            others = [n for n in CRIT if n != crit[0]['name']]
            n = rng.choice(others)
            crit.append({'name': n, 'pos': crit[0]['pos'],
                         'extra': gen_extra(rng, n, mr)})
        else:
            a, b = rng.sample(range(len(crit)), 2)
            crit[b]['pos'] = crit[a]['pos']
    else:
        opts['stab'] = True
        twopl = False
    sc = lp_base(rng, inst, opts, ops=[['solve', {}], ['get_results']])
    sc['twopl'] = twopl
    if why == 'stab-without-twopl':
        # build_argv drops -stab for one-sided instances only through
        # gen_opts; here we want it on the command line without -twopl
        sc['inst'] = dict(inst, twopl=False)
        sc['force_stab'] = True
    sc['c16'] = 'refuse'
    sc['refuse'] = why
    sc['no_file'] = rng.random() < 0.4
    return sc


# ---------------------------------------------------------------------------
# C18: API histories
# ---------------------------------------------------------------------------
GETTERS = ['get_results', 'get_results_short', 'get_results_long',
           'get_debug']


def build_c18(rng, tier):
    inst = instances.gen_instance(rng, {'zero_cap': rng.random() < 0.4},
                                  thorough=False)
    bf = rng.random() < 0.2
    if bf:
        opts = {'criteria': [], 'pc': rng.random() < 0.4, 'stab': False,
                'bf': True}
    else:
        opts = gen_opts(rng, inst)
    n = rng.randint(2, 12)
    ops = [['solve', {'timeLimit': rng.choice([None, None, 10 ** 9])}]]
    while len(ops) < n:
        x = rng.random()
        if x < 0.2:
            ops.append(['solve', {'timeLimit': rng.choice([None, None,
                                                          10 ** 9])}])
        elif x < 0.3:
            ops.append(['idle', {'seconds': 10 ** rng.uniform(-3, 4)}])
        else:
            ops.append([rng.choice(GETTERS)])
    if not any(o[0] in GETTERS for o in ops):
        ops.append([rng.choice(GETTERS)])
    return lp_base(rng, inst, opts, ops=ops, policy='uniform')


# ---------------------------------------------------------------------------
# C06: Byzantine back end under -stab
# ---------------------------------------------------------------------------
def quota_respecting_assignments(I):
    """All assignments to acceptable projects that respect project and
    lecturer UPPER quotas (lower quotas ignored)."""
    out = []
    for M in rm.all_assignments(I):
        pc, lc = rm.counts(I, M)
        if all(pc[j] <= I.puq[j] for j in range(I.n2)) and \
                all(lc[k] <= I.luq[k] for k in range(I.n3)):
            out.append(M)
    return out


def build_c06(rng, tier):
    sw = {'twopl': True, 'zero_cap': rng.random() < 0.5,
          'ties2': rng.choice([0, .3, .5, .7, 1]), 'lowq': False}
    inst = instances.gen_instance(rng, sw, thorough=False)
    opts = {'criteria': [], 'pc': rng.random() < 0.2, 'stab': True,
            'flag_order': None}
    if rng.random() < 0.25:
        # corollary: fault-free -stab run prints stability_correct: True
        opts = gen_opts(rng, inst, ncrit=rng.choice([0, 1, 2]), stab=True)
        opts['stab'] = True
        sc = lp_base(rng, inst, opts, ops=[['solve', {}], ['get_results'],
                                           ['get_results_long']])
        sc['byz'] = None
        return sc
    I = rm.parse(instances.render(inst), inst['na'], True)
    cands = quota_respecting_assignments(I)
    st = [M for M in cands if rm.stable(I, M)]
    un = [M for M in cands if not rm.stable(I, M)]
    n = rng.randint(2, 8)
    byz = []
    for _ in range(n):
        pool = st if (rng.random() < 0.5 and st) or not un else un
        byz.append(list(rng.choice(pool)))
    ops = []
    for _ in range(n):
        ops.append(['solve', {}])
        ops.append([rng.choice(['get_results', 'get_results_short',
                                'get_results_long'])])
    sc = lp_base(rng, inst, opts, ops=ops, policy='uniform')
    sc['backend']['faults'] = [{'round': 1, 'kind': 'byzantine',
                                'persist': True}]
    sc['byz'] = byz
    return sc


BUILDERS.update({'C14': build_c14, 'C16': build_c16, 'C18': build_c18,
                 'C06': build_c06})
