"""Seeded scenario builders (swarm style: each run first draws which features
are enabled, so runs differ in kind, not just in numbers)."""
import random

import instances
import refmodel as rm

CRIT = list(rm.CRITERIA)
POLICIES = ('uniform', 'uniform', 'adversarial', 'adversarial', 'first',
            'last')


def maxrank_of(inst):
    return max([len(g) for g in inst['students']] or [0])


def gen_extra(rng, name, maxrank, always=False):
    if name == 'gen':
        if always or rng.random() < 0.5:
            return [rng.randint(1, max(1, maxrank))]
        return []
    if name == 'gre':
        if always or rng.random() < 0.5:
            return [rng.randint(1, maxrank + 2)]
        return []
    if name in ('mincost', 'minsqcost', 'mincostlsb'):
        k = 2 if always else rng.choice([0, 0, 1, 2, 2])
        return [rng.randint(0, 3) for _ in range(k)]
    return []


def gen_criteria(rng, k, maxrank, names=None, pool=None):
    pool = pool or CRIT
    if names is None:
        names = rng.sample(pool, k)
    pos = rng.sample(range(1, 10), len(names))
    if rng.random() < 0.3:
        pos = sorted(pos)          # ungapped-ish orders also occur
    out = []
    for n, p in zip(names, pos):
        out.append({'name': n, 'pos': p, 'extra': gen_extra(rng, n, maxrank)})
    return out


def gen_opts(rng, inst, ncrit=None, stab=None, pc=None, pool=None):
    mr = maxrank_of(inst)
    if ncrit is None:
        ncrit = rng.choice([0, 1, 1, 2, 2, 3, 4])
    opts = {'criteria': gen_criteria(rng, ncrit, mr, pool=pool),
            'pc': (rng.random() < 0.35) if pc is None else pc,
            'stab': ((rng.random() < 0.4) if stab is None else stab)
            and inst['twopl']}
    n_groups = len(opts['criteria']) + 4
    order = list(range(n_groups))
    rng.shuffle(order)
    opts['flag_order'] = order
    if rng.random() < 0.25:
        opts['alias_seed'] = rng.randrange(1, 2 ** 31)
    return opts


def lp_base(rng, inst, opts, ops=None, policy=None):
    sc = {'family': 'lp', 'inst': inst, 'na': inst['na'],
          'twopl': inst['twopl'], 'opts': opts,
          'ops': ops or [['solve', {}], ['get_results'],
                         ['get_results_long']],
          'backend': {'policy': policy or rng.choice(POLICIES),
                      'choice_seed': rng.randrange(2 ** 31),
                      'duration_seed': rng.randrange(2 ** 31)},
          'clock_seed': rng.randrange(2 ** 31)}
    x = rng.random()
    if x < 0.2:
        sc['backend']['value_noise'] = rng.randrange(1, 2 ** 31)
    if rng.random() < 0.1:
        sc['relpath'] = True     # run from the instance's directory, -f name
    return sc


def build_c01(rng, tier):
    sw = {'zero_cap': rng.random() < 0.4, 'lowq': rng.random() < 0.6}
    inst = instances.gen_instance(rng, sw, thorough=(tier == 'thorough'))
    return lp_base(rng, inst, gen_opts(rng, inst))


def build_c02(rng, tier):
    sw = {}
    inst = instances.gen_instance(rng, sw, thorough=(tier == 'thorough'))
    ncrit = rng.choice([0, 1, 1, 2, 2, 3, 4, 5, 9])
    opts = gen_opts(rng, inst, ncrit=min(ncrit, 9))
    ops = [['solve', {}], ['get_results'], ['get_results_long'],
           ['get_results_short']]
    if rng.random() < 0.08:
        ops.insert(0, ['clobber', {'mode': 'delete'}])
    if rng.random() < 0.1:
        # a time limit that cannot be reached is part of the API too
        ops[-4][1]['timeLimit'] = rng.choice(
            [10 ** 9, 10 ** 15, 1e18, 2 ** 63])
    return lp_base(rng, inst, opts, ops=ops)


def build_c03(rng, tier):
    inst = instances.gen_instance(rng, {}, thorough=(tier == 'thorough'))
    name = rng.choice(CRIT)
    mr = maxrank_of(inst)
    crit = [{'name': name, 'pos': rng.randint(1, 9),
             'extra': gen_extra(rng, name, mr)}]
    opts = {'criteria': crit, 'pc': rng.random() < 0.3,
            'stab': rng.random() < 0.35 and inst['twopl']}
    order = list(range(5))
    rng.shuffle(order)
    opts['flag_order'] = order
    if rng.random() < 0.3:
        opts['alias_seed'] = rng.randrange(1, 2 ** 31)
    return lp_base(rng, inst, opts)


def build_c04(rng, tier):
    inst = instances.gen_instance(rng, {}, thorough=(tier == 'thorough'))
    opts = gen_opts(rng, inst, ncrit=rng.choice([2, 2, 2, 3, 3, 4]))
    return lp_base(rng, inst, opts)


def build_c05(rng, tier):
    sw = {'twopl': True, 'ties2': rng.choice([0, .3, .5, .7, 1]),
          'zero_cap': rng.random() < 0.35}
    inst = instances.gen_instance(rng, sw, thorough=(tier == 'thorough'))
    if rng.random() < 0.3:
        # any criteria: soundness of the feasible set and of the printed
        # matching only (completeness is decided on size-only option sets)
        opts = gen_opts(rng, inst, ncrit=rng.choice([1, 2, 3]), stab=True)
    else:
        opts = gen_opts(rng, inst, ncrit=rng.choice([0, 0, 1, 1, 2]),
                        stab=True, pool=['maxsize', 'minsize'])
    opts['stab'] = True
    return lp_base(rng, inst, opts)


def build_c11(rng, tier):
    inst = instances.gen_instance(rng, {}, thorough=(tier == 'thorough'))
    if rng.random() < 0.5:
        opts = gen_opts(rng, inst, ncrit=0, stab=False)
        policy = 'uniform'
    else:
        opts = gen_opts(rng, inst)
        policy = rng.choice(['uniform', 'first', 'last'])
    ops = [['solve', {}], ['get_results'], ['get_results_short'],
           ['get_results_long']]
    return lp_base(rng, inst, opts, ops=ops, policy=policy)


BUILDERS = {'C01': build_c01, 'C02': build_c02, 'C03': build_c03,
            'C04': build_c04, 'C05': build_c05, 'C11': build_c11}


# ---------------------------------------------------------------------------
# C14: fault plans under a simulated clock
# ---------------------------------------------------------------------------
STATUS_FAULTS = ['status:Infeasible', 'status:Unbounded', 'status:Undefined',
                 'status:Not Solved']
VALUE_MODES = ['zeros', 'stale', 'garbage']
LIMITS = [0.5, 1, 5, 60.0, 600, 3600.0, 10 ** 15]


def build_c14(rng, tier):
    inst = instances.gen_instance(rng, {}, thorough=False)
    mr = maxrank_of(inst)
    k = rng.choice([0, 1, 1, 2, 2, 3])
    pool = CRIT + ['gen', 'gre', 'gen', 'gre']
    names = []
    while len(names) < k:
        n = rng.choice(pool)
        if n not in names:
            names.append(n)
    opts = {'criteria': gen_criteria(rng, k, mr, names=names),
            'pc': rng.random() < 0.25,
            'stab': rng.random() < 0.3 and inst['twopl']}
    limit = rng.choice([None] + LIMITS + LIMITS)
    skw = {'timeLimit': limit}
    if rng.random() < 0.25:
        skw['positional'] = True     # solve(False, limit)
    if limit is not None and limit <= 3600 and rng.random() < 0.15:
        # numeric types other than int/float are legal limits too
        skw['tl_type'] = rng.choice(['int64', 'float32', 'float64',
                                     'int32'])
        if skw['tl_type'].startswith('int'):
            skw['timeLimit'] = limit = max(1, int(limit))
    ops = [['solve', skw], ['get_results'],
           ['get_results_short'], ['get_results_long']]
    sc = lp_base(rng, inst, opts, ops=ops, policy='uniform')
    sc['limit'] = limit
    return sc


def clock_plan(rng, limit, K):
    n = K + 3
    if limit is None:
        return [10 ** rng.uniform(-5, 4) for _ in range(n)]
    if limit > 1e9:
        # the simulated calendar ends in year 9999: such a limit cannot be
        # exceeded, only respected
        return [10 ** rng.uniform(-5, 3) for _ in range(n)]
    mode = rng.choice(['fast', 'fast', 'one-long', 'sum-exceeds',
                       'slow-under'])
    if mode == 'fast':
        return [10 ** rng.uniform(-5, -2) for _ in range(n)]
    if mode == 'one-long':
        d = [10 ** rng.uniform(-5, -2) for _ in range(n)]
        d[rng.randrange(max(1, K))] = limit * rng.uniform(1.5, 10)
        return d
    if mode == 'sum-exceeds':
        return [limit * rng.uniform(0.3, 0.7) for _ in range(n)]
    return [limit * 0.8 / n * rng.uniform(0.2, 1.0) for _ in range(n)]


def c14_plans(rng, K, limit, tier):
    """All single faults, plus a seeded sample of pairs."""
    kinds = list(STATUS_FAULTS) + ['crash']
    if limit is not None and limit <= 1e9:
        kinds += ['tl-incumbent', 'tl-no-incumbent']
    plans = []
    for pos in range(1, K + 1):
        for kind in kinds:
            for persist in (False, True):
                modes = VALUE_MODES if tier == 'thorough' else \
                    [rng.choice(VALUE_MODES)]
                for vm in modes:
                    plans.append([{'round': pos, 'kind': kind,
                                   'persist': persist, 'values': vm}])
    all_pairs_upto = 3 if tier == 'thorough' else 2
    if 2 <= K <= all_pairs_upto:
        # every combination of two faults (first transient; position a < b)
        for a in range(1, K + 1):
            for b in range(a + 1, K + 1):
                for k1 in kinds:
                    for k2 in kinds:
                        for persist in (False, True):
                            plans.append([
                                {'round': a, 'kind': k1, 'persist': False,
                                 'values': rng.choice(VALUE_MODES)},
                                {'round': b, 'kind': k2, 'persist': persist,
                                 'values': rng.choice(VALUE_MODES)}])
        return plans
    npairs = 12 if tier == 'thorough' else 4
    for _ in range(npairs if K >= 1 else 0):
        a = rng.randint(1, K)
        b = rng.randint(1, K + 1)
        if a == b:
            b = a + 1
        plans.append([{'round': a, 'kind': rng.choice(kinds),
                       'persist': False, 'values': rng.choice(VALUE_MODES)},
                      {'round': b, 'kind': rng.choice(kinds),
                       'persist': rng.random() < 0.5,
                       'values': rng.choice(VALUE_MODES)}])
    return plans


# ---------------------------------------------------------------------------
# C16: criteria order and refusals
# ---------------------------------------------------------------------------
def build_c16(rng, tier):
    kind = rng.choice(['order', 'order', 'order', 'refuse', 'refuse',
                       'fault-prefix'])
    inst = instances.gen_instance(rng, {}, thorough=False)
    mr = maxrank_of(inst)
    if kind in ('order', 'fault-prefix'):
        k = rng.choice([1, 2, 2, 3, 3, 4, 5, 9])
        opts = gen_opts(rng, inst, ncrit=k)
        for c in opts['criteria']:
            if c['name'] in ('gen', 'gre') and rng.random() < 0.5:
                c['extra'] = gen_extra(rng, c['name'], mr, always=True)
        limit = rng.choice([None, None, None] + LIMITS)
        sc = lp_base(rng, inst, opts,
                     ops=[['solve', {'timeLimit': limit}], ['get_results'],
                          ['get_results_long']])
        sc['c16'] = kind
        sc['limit'] = limit
        if limit is not None:
            sc['backend']['durations'] = clock_plan(rng, limit, 6)
        return sc
    # refusals
    why = rng.choice(['pos-out-of-range', 'pos-out-of-range', 'duplicate-pos',
                      'stab-without-twopl'])
    k = rng.choice([1, 2, 3, 4])
    opts = gen_opts(rng, inst, ncrit=k, stab=False)
    crit = opts['criteria']
    twopl = inst['twopl']
    if why == 'pos-out-of-range':
        c = rng.choice(crit)
        c['pos'] = rng.choice([-1, 0, 10, 11, -5, 12, 100])
    elif why == 'duplicate-pos':
        if len(crit) < 2:
            others = [n for n in CRIT if n != crit[0]['name']]
            n = rng.choice(others)
            crit.append({'name': n, 'pos': crit[0]['pos'],
                         'extra': gen_extra(rng, n, mr)})
        else:
            a, b = rng.sample(range(len(crit)), 2)
            crit[b]['pos'] = crit[a]['pos']
    else:
        opts['stab'] = True
        twopl = False
    sc = lp_base(rng, inst, opts, ops=[['solve', {}], ['get_results']])
    sc['twopl'] = twopl
    if why == 'stab-without-twopl':
        # build_argv drops -stab for one-sided instances only through
        # gen_opts; here we want it on the command line without -twopl
        sc['inst'] = dict(inst, twopl=False)
        sc['force_stab'] = True
    sc['c16'] = 'refuse'
    sc['refuse'] = why
    sc['no_file'] = rng.random() < 0.4
    return sc


# ---------------------------------------------------------------------------
# C18: API histories
# ---------------------------------------------------------------------------
GETTERS = ['get_results', 'get_results_short', 'get_results_long',
           'get_debug']


def build_c18(rng, tier):
    bf = rng.random() < 0.2
    sw = {'zero_cap': rng.random() < 0.4}
    if bf:
        sw['shape'] = 'small'      # brute force enumerates (n2+1)^n1
    inst = instances.gen_instance(rng, sw, thorough=False)
    if bf:
        opts = {'criteria': [], 'pc': rng.random() < 0.4, 'stab': False,
                'bf': True}
    else:
        opts = gen_opts(rng, inst)
    n = rng.randint(2, 12)
    big_limits = [None, None, 10 ** 9, 10 ** 15, 1e18]
    # one history in four: the solves of one object carry different limits,
    # some of which bind (less time than a solve takes -> the back end stops
    # on its limit; or less than the time elapsed since construction).  The
    # solves WITHOUT a reachable limit must still reproduce the first one.
    vary = (not bf) and rng.random() < 0.25
    if vary:
        n = rng.randint(4, 12)

    def a_limit():
        if not vary or rng.random() < 0.45:
            return rng.choice(big_limits)
        if rng.random() < 0.5:
            return 10 ** rng.uniform(-7, -4)
        return round(10 ** rng.uniform(-1, 2), rng.choice([0, 1, 3]))
    ops = [['solve', {'timeLimit': rng.choice(big_limits)}]]
    while len(ops) < n:
        x = rng.random()
        if x < (0.4 if vary else 0.2):
            ops.append(['solve', {'timeLimit': a_limit()}])
            if vary and rng.random() < 0.8:
                ops.append([rng.choice(GETTERS)])
        elif x < 0.3:
            ops.append(['idle', {'seconds': 10 ** rng.uniform(-3, 4)}])
        else:
            ops.append([rng.choice(GETTERS)])
    if not any(o[0] in GETTERS for o in ops):
        ops.append([rng.choice(GETTERS)])
    if rng.random() < 0.2:
        # the instance file is deleted or overwritten after construction
        if rng.random() < 0.5:
            cl = ['clobber', {'mode': 'delete'}]
        else:
            other = instances.gen_instance(rng, {'shape': 'small',
                                                 'na': inst['na']},
                                           thorough=False)
            cl = ['clobber', {'mode': 'overwrite',
                              'text': instances.render(other)}]
        ops.insert(rng.randint(0, len(ops)), cl)
    if rng.random() < 0.25:
        # another Solver object works in between: on another instance, or on
        # a byte-identical one (objects must not share state either way)
        if rng.random() < 0.5 and not bf:
            import copy as _copy
            inst2 = _copy.deepcopy(inst)
            opts2 = _copy.deepcopy(opts) if rng.random() < 0.5 else \
                gen_opts(rng, inst2)
        else:
            inst2 = instances.gen_instance(rng, {'shape': 'small'},
                                           thorough=False)
            opts2 = None
        if opts2 is not None:
            pass
        elif rng.random() < 0.2:
            opts2 = {'criteria': [], 'pc': rng.random() < 0.4,
                     'stab': False, 'bf': True}
        else:
            opts2 = gen_opts(rng, inst2)
        intruder = ['intruder', {
            'inst': inst2, 'na': inst2['na'], 'twopl': inst2['twopl'],
            'opts': opts2,
            'ops': [['solve', {}], [rng.choice(GETTERS)]],
            'backend': {'policy': 'uniform',
                        'choice_seed': rng.randrange(2 ** 31)}}]
        ops.insert(rng.randint(1, len(ops)), intruder)
    sc = lp_base(rng, inst, opts, ops=ops, policy='uniform')
    if vary:
        sc['backend']['coherent_tl'] = True
        # a solve other than the first may also die at its k-th underlying
        # solve; the caller gets PuLP's exception and solves again later
        ce = {}
        n_s = 0
        for o in ops:
            if o[0] == 'solve':
                n_s += 1
                if n_s >= 2 and rng.random() < 0.3:
                    ce[str(n_s)] = rng.choice([1, 1, 2, 3, 4])
        if ce:
            sc['backend']['crash_epochs'] = ce
    return sc


# ---------------------------------------------------------------------------
# C06: Byzantine back end under -stab
# ---------------------------------------------------------------------------
def quota_respecting_assignments(I):
    """All assignments to acceptable projects that respect project and
    lecturer UPPER quotas (lower quotas ignored)."""
    out = []
    for M in rm.all_assignments(I):
        pc, lc = rm.counts(I, M)
        if all(pc[j] <= I.puq[j] for j in range(I.n2)) and \
                all(lc[k] <= I.luq[k] for k in range(I.n3)):
            out.append(M)
    return out


def build_c06(rng, tier):
    sw = {'twopl': True, 'zero_cap': rng.random() < 0.5,
          'ties2': rng.choice([0, .3, .5, .7, 1]), 'lowq': False}
    inst = instances.gen_instance(rng, sw, thorough=False)
    opts = {'criteria': [], 'pc': rng.random() < 0.35, 'stab': True,
            'flag_order': None}
    if rng.random() < 0.25:
        # corollary: fault-free -stab run prints stability_correct: True
        opts = gen_opts(rng, inst, ncrit=rng.choice([0, 1, 2]), stab=True)
        opts['stab'] = True
        sc = lp_base(rng, inst, opts, ops=[['solve', {}], ['get_results'],
                                           ['get_results_long']])
        sc['byz'] = None
        return sc
    I = rm.parse(instances.render(inst), inst['na'], True)
    cands = quota_respecting_assignments(I)
    st = [M for M in cands if rm.stable(I, M)]
    un = [M for M in cands if not rm.stable(I, M)]
    n = rng.randint(2, 8)
    byz = []
    for _ in range(n):
        pool = st if (rng.random() < 0.5 and st) or not un else un
        byz.append(list(rng.choice(pool)))
    ops = []

    def direct(k):
        # the stability check called directly, several assignments in a row
        # on the same Model object (no solve in between)
        for _ in range(k):
            pool = st if (rng.random() < 0.5 and st) or not un else un
            ops.append(['check_stability',
                        {'assignment': list(rng.choice(pool))}])
    if rng.random() < 0.3:
        direct(rng.randint(1, 3))          # before the first solve
    for _ in range(n):
        ops.append(['solve', {}])
        ops.append([rng.choice(['get_results', 'get_results_short',
                                'get_results_long'])])
        if rng.random() < 0.4:
            direct(rng.randint(1, 4))
    sc = lp_base(rng, inst, opts, ops=ops, policy='uniform')
    sc['backend']['faults'] = [{'round': 1, 'kind': 'byzantine',
                                'persist': True}]
    sc['byz'] = byz
    return sc


BUILDERS.update({'C14': build_c14, 'C16': build_c16, 'C18': build_c18,
                 'C06': build_c06})


# ---------------------------------------------------------------------------
# S-GEN: generator argument vectors
# ---------------------------------------------------------------------------
GEN_FLAGS = [('mp', '-mp'), ('numinst', '-numinst'), ('n1', '-n1'),
             ('n2', '-n2'), ('n3', '-n3'), ('pmin', '-pmin'),
             ('pmax', '-pmax'), ('uq', '-uq'), ('lq', '-lq'),
             ('luq', '-luq'), ('lt', '-lt'), ('llq', '-llq'), ('t1', '-t1'),
             ('t2', '-t2'), ('skew', '-skew')]
GEN_ALIASES = {
    '-mp': '--matchingproblem', '-numinst': '--numberinstances',
    '-n1': '--numberofagents1', '-n2': '--numberofagents2',
    '-n3': '--numberofagents3', '-pmin': '--minpreflistlength',
    '-pmax': '--maxpreflistlength', '-uq': '--upperquotas',
    '-lq': '--lowerquotas', '-luq': '--lecturerupperquotas',
    '-lt': '--lecturertargets', '-llq': '--lecturerlowerquotas',
    '-t1': '--ties1', '-t2': '--ties2', '-skew': '--linearskew',
    '-twopl': '--preferencelists2'}
REQUIRED = {'ha': ['n1', 'n2', 'pmin', 'pmax', 'uq'],
            'sm': ['n1', 'pmin', 'pmax', 'twopl'],
            'hr': ['n1', 'n2', 'pmin', 'pmax', 'uq', 'twopl'],
            'spa': ['n1', 'n2', 'n3', 'pmin', 'pmax', 'uq', 'luq']}
# parameters README documents only for other problem types
BANNED = {'ha': ['twopl', 'n3', 't2', 'llq', 'luq', 'lt'],
          'sm': ['n2', 'n3', 'uq', 'lq', 'llq', 'luq', 'lt'],
          'hr': ['n3', 'llq', 'luq', 'lt'],
          'spa': []}


def gen_argv(params):
    """Generator argument vector (without -o) from structured parameters."""
    groups = []
    for key, flag in GEN_FLAGS:
        v = params.get(key)
        if v is not None:
            groups.append([flag, _num(v)])
    if params.get('twopl'):
        groups.append(['-twopl'])
    order = params.get('flag_order')
    if order:
        order = [i for i in order if i < len(groups)]
        rest = [i for i in range(len(groups)) if i not in order]
        groups = [groups[i] for i in order + rest]
    if params.get('alias_seed'):
        r = random.Random(params['alias_seed'])
        groups = [[GEN_ALIASES[g[0]]] + g[1:]
                  if g[0] in GEN_ALIASES and r.random() < 0.5 else g
                  for g in groups]
        groups = [[g[0] + '=' + g[1]] if len(g) == 2 and len(g[0]) > 2 and
                  not g[1].startswith('-') and r.random() < 0.3 else g
                  for g in groups]
    out = []
    for g in groups:
        out += g
    return out


def _num(v):
    if isinstance(v, float) and v == int(v) and abs(v) < 1e15:
        return repr(v)
    return str(v)


def gen_params(rng, mp=None, small=False, big_lists=False, twopl=None):
    """An argument set the README documents as legal for the type."""
    mp = mp or rng.choice(['ha', 'sm', 'hr', 'spa'])
    hi1 = 4 if small else (6 if big_lists else 5)
    hi2 = 4 if not big_lists else 6
    p = {'mp': mp, 'numinst': rng.choice([1, 1, 2, 3])}
    p['n1'] = rng.randint(1, hi1)
    if mp != 'sm':
        p['n2'] = rng.randint(1, hi2)
    if not small and rng.random() < 0.12:
        # two-digit agent ids in the written lists
        if mp == 'sm' or rng.random() < 0.5:
            p['n1'] = rng.randint(10, 12)
        if mp != 'sm' and (p['n1'] < 10 or rng.random() < 0.5):
            p['n2'] = rng.randint(10, 12)
    n2 = p.get('n2', p['n1'])
    if mp == 'spa':
        p['n3'] = rng.randint(1, 4)
        if rng.random() < 0.15:
            p['n3'] = rng.randint(n2, n2 + 2)
    cap = min(n2, 3) if small else n2
    p['pmax'] = rng.randint(1, cap)
    p['pmin'] = rng.randint(1, p['pmax'])
    if mp != 'sm':
        p['uq'] = rng.randint(n2, n2 + 4)
        if rng.random() < 0.5:
            p['lq'] = rng.randint(0, p['uq']) if rng.random() < 0.5 \
                else rng.randint(0, 2)
            p['lq'] = min(p['lq'], p['uq'])
    if mp == 'spa':
        n3 = p['n3']
        p['luq'] = rng.randint(1, n3 + 4)
        if rng.random() < 0.6:
            p['lt'] = rng.randint(0, p['luq'])
            if rng.random() < 0.5:
                p['llq'] = rng.randint(0, p['lt'])
        elif rng.random() < 0.3:
            p['llq'] = 0
    def prob():
        x = rng.random()
        if x < 0.75:
            return rng.choice([0, 0.0, .3, .5, .7, 1, 1.0])
        if x < 0.9:
            return rng.random()                       # e.g. 0.8444218515
        return rng.random() * 10 ** -rng.randint(3, 8)    # e.g. 5.1e-06
    if rng.random() < 0.7:
        p['t1'] = prob()
    if mp != 'ha' and rng.random() < 0.7:
        p['t2'] = prob()
    if rng.random() < 0.5:
        p['skew'] = rng.choice([.5, 1, 1.0, 3, 10, 2.5])
    if mp in ('sm', 'hr'):
        p['twopl'] = True
    elif mp == 'spa':
        p['twopl'] = (rng.random() < 0.6) if twopl is None else twopl
    else:
        p['twopl'] = False
    order = list(range(18))
    rng.shuffle(order)
    p['flag_order'] = order if rng.random() < 0.6 else None
    if rng.random() < 0.25:
        p['alias_seed'] = rng.randrange(1, 2 ** 31)
    return p


def gen_base(rng, params, sessions=None, spy_ties=False):
    sc = {'family': 'gen', 'params': params,
          'rng': [rng.randrange(2 ** 31), rng.randrange(2 ** 31)],
          'sessions': sessions or [], 'spy_ties': spy_ties,
          'clock_seed': rng.randrange(2 ** 31)}
    x = rng.random()
    if x < 0.15:
        # nested output directory / unusual but legal characters in its name
        sc['out_rel'] = rng.choice(['deep/er/out', 'deep/er/out',
                                    'out %d dir', '100%', 'o.u.t',
                                    "it's", 'a=b', 'out-1', '-out'][:8])
    elif x < 0.30:
        sc['precreate_out'] = True         # output directory exists already
        if rng.random() < 0.5:             # ... with files of an earlier run
            sc['stale_files'] = rng.randint(1, params.get('numinst') or 1)
    if rng.random() < 0.15:
        sc['rel_out'] = True               # run from the parent, -o <name>
    return sc


def build_c08(rng, tier):
    if rng.random() < GIANT_LANE.get(tier, 0):
        sc = gen_base(rng, giant_params(rng))
        sc['giant'] = True
        return sc
    if rng.random() < 0.08:
        # reachability of every list length: >= 300 lists of one class in
        # one run (miss probability < 1e-20 for a correct implementation)
        mp = rng.choice(['ha', 'hr', 'spa', 'sm'])
        p = gen_params(rng, mp=mp)
        p['n1'] = 6
        if mp != 'sm':
            p['n2'] = rng.randint(2, 5)
            p['uq'] = p['n2'] + rng.randint(0, 3)
            p.pop('lq', None)
        n2 = p.get('n2', p['n1'])
        p['pmax'] = rng.randint(2, min(n2, 5))
        p['pmin'] = rng.randint(1, p['pmax'] - 1)
        p['numinst'] = 60
        sc = gen_base(rng, p)
        sc['reach'] = True
        return sc
    if rng.random() < 0.02:
        p = huge_params(rng, twopl=rng.random() < 0.7)
        if p['mp'] in ('ha',):
            p['twopl'] = False
        if p['mp'] in ('sm', 'hr'):
            p['twopl'] = True
        return gen_base(rng, p)
    p = gen_params(rng)
    if p['mp'] == 'spa' and rng.random() < 0.5:
        # wider project / lecturer counts: every relation of n2 mod n3
        p['n2'] = rng.randint(1, 9)
        p['n3'] = rng.randint(1, 6)
        p['pmax'] = rng.randint(1, min(p['n2'], 4))
        p['pmin'] = rng.randint(1, p['pmax'])
        p['uq'] = rng.randint(p['n2'], p['n2'] + 4)
        if p.get('lq') is not None:
            p['lq'] = min(p['lq'], p['uq'])
    return gen_base(rng, p)


def huge_params(rng, twopl=True):
    """Size sweep (generator only, nothing is solved): one of the agent counts
    is drawn log-uniformly from 13..1500, so that thresholds such as 49, 64,
    256, 1000 fall inside the sampled range; lists can be hundreds of entries
    long on either side."""
    import math
    mp = rng.choice(['ha', 'sm', 'hr', 'spa', 'spa'])
    p = gen_params(rng, mp=mp, twopl=twopl)
    big = int(round(math.exp(rng.uniform(math.log(13), math.log(1500)))))
    dim = rng.choice(['n1', 'n2', 'n3'] if mp == 'spa' else
                     (['n1'] if mp == 'sm' else ['n1', 'n2']))
    p['n1'] = rng.randint(1, 6)
    if mp != 'sm':
        p['n2'] = rng.randint(1, 6)
    if mp == 'spa':
        p['n3'] = rng.randint(1, 4)
    p[dim] = big
    n2 = p.get('n2', p['n1']) if mp != 'sm' else p['n1']
    if mp == 'spa' and dim == 'n3':
        # every lecturer gets a project, often two or three
        p['n2'] = rng.choice([rng.randint(big, big + 20),
                              rng.randint(2 * big, 3 * big)])
        n2 = p['n2']
    # list lengths: short, or as long as the other side allows (<= 400)
    p['pmax'] = rng.choice([rng.randint(1, min(n2, 6)),
                            rng.randint(1, min(n2, 400))])
    p['pmin'] = rng.choice([1, p['pmax'], rng.randint(1, p['pmax'])])
    if mp != 'sm':
        p['uq'] = n2 * rng.choice([1, 1, 2, 3]) + rng.choice([0, 0, 1, 3])
        p['lq'] = rng.choice([None, 0, n2, rng.randint(0, p['uq'])])
    if mp == 'spa':
        n3 = p['n3']
        p['luq'] = max(1, n3 * rng.choice([1, 1, 2, 3]) + rng.choice([0, 0, 2]))
        p['lt'] = rng.choice([None, 0, min(n3, p['luq']),
                              rng.randint(0, p['luq'])])
        p['llq'] = rng.choice([None, 0]) if not p['lt'] else \
            rng.choice([None, 0, rng.randint(0, p['lt'])])
    p['numinst'] = 1
    return p


def giant_params(rng):
    """More first-side agents than 16 bits hold (65536 and beyond, or just
    past 2**17): short lists, few agents on the other side, one file.  A
    generator run of this size takes seconds, so the lane is a handful of
    runs per batch."""
    mp = rng.choice(['hr', 'hr', 'spa'])
    p = gen_params(rng, mp=mp, twopl=True)
    p['n1'] = rng.choice([rng.randint(65536, 65560),
                          rng.randint(65537, 70000),
                          rng.randint(131072, 131100)])
    if mp == 'sm':
        p['pmax'] = rng.randint(1, 3)
    else:
        p['n2'] = rng.randint(2, 7)
        p['pmax'] = rng.randint(1, min(p['n2'], 3))
        p['uq'] = p['n2'] * rng.choice([1, 2, 20000]) + rng.choice([0, 1])
        p['lq'] = rng.choice([None, 0, rng.randint(0, 2)])
        if p['lq'] is None:
            p.pop('lq')
    p['pmin'] = rng.randint(1, p['pmax'])
    if mp == 'spa':
        p['n3'] = rng.randint(1, 4)
        p['luq'] = rng.randint(1, p['n3'] + 4)
        p['lt'] = rng.randint(0, p['luq'])
        p['llq'] = rng.randint(0, p['lt'])
    p['twopl'] = True
    p['numinst'] = 1
    return p


GIANT_LANE = {'quick': 0.0004, 'thorough': 0.0004}


def build_c12(rng, tier):
    if rng.random() < GIANT_LANE.get(tier, 0):
        sc = gen_base(rng, giant_params(rng))
        sc['giant'] = True
        return sc
    if rng.random() < 0.02:
        p = huge_params(rng)
        if p['mp'] == 'ha':
            p['mp'] = 'hr'
            p['twopl'] = True
        return gen_base(rng, p)
    mp = rng.choice(['sm', 'hr', 'spa', 'spa'])
    p = gen_params(rng, mp=mp, twopl=True)
    if mp == 'spa' and rng.random() < 0.5:
        p['n2'] = rng.randint(1, 9)
        p['n3'] = rng.randint(1, 6)
        p['pmax'] = rng.randint(1, min(p['n2'], 4))
        p['pmin'] = rng.choice([rng.randint(1, p['pmax']), p['pmax']])
        p['uq'] = rng.randint(p['n2'], p['n2'] + 4)
        if p.get('lq') is not None:
            p['lq'] = min(p['lq'], p['uq'])
    return gen_base(rng, p)


def build_c13_huge(rng):
    """five-digit agent ids in the written lists (file is only loaded)"""
    mp = rng.choice(['ha', 'hr'])
    p = gen_params(rng, mp=mp)
    if rng.random() < 0.6:
        p['n1'] = rng.randint(1, 3)
        p['n2'] = rng.randint(10001, 10030)      # first-side lists: ids >= 10^4
        p['pmax'] = rng.randint(2, 6)
    else:
        mp = p['mp'] = 'hr'
        p['twopl'] = True
        p['n1'] = rng.randint(10001, 10030)      # second-side lists: ids >= 10^4
        p['n2'] = rng.randint(1, 2)
        p['pmax'] = 1
    p['pmin'] = rng.randint(1, p['pmax'])
    p['uq'] = max(p['n1'], p['n2'])
    p['lq'] = None
    p['skew'] = None
    p['t1'] = rng.choice([.3, .5, .7, 1])
    if mp != 'ha':
        p['t2'] = rng.choice([.3, .5, .7, 1])
    p['numinst'] = 1
    sessions = [{'file': '0.txt', 'na': 2, 'twopl': bool(p['twopl']),
                 'opts': {'criteria': []}, 'ops': []}]
    return gen_base(rng, p, sessions=sessions, spy_ties=True)


def build_c13_sweep(rng):
    p = huge_params(rng, twopl=rng.random() < 0.8)
    mp = p['mp']
    if mp == 'ha':
        p['twopl'] = False
    if mp in ('sm', 'hr'):
        p['twopl'] = True
    p['t1'] = rng.choice([.3, .5, .7, 1])
    if mp != 'ha':
        p['t2'] = rng.choice([.3, .5, .7, 1])
    na = 3 if mp == 'spa' else 2
    sessions = [{'file': '0.txt', 'na': na, 'twopl': bool(p['twopl']),
                 'opts': {'criteria': []}, 'ops': []}]
    return gen_base(rng, p, sessions=sessions, spy_ties=True)


def build_c13_giant(rng):
    """more than 65535 first-side agents, ties on both sides; the file is
    only loaded by the solver (ranks read = ranks the text denotes)"""
    p = giant_params(rng)
    p['t1'] = rng.choice([.3, .5, .7, 1])
    p['t2'] = rng.choice([.3, .5, .7, 1])
    na = 3 if p['mp'] == 'spa' else 2
    sessions = [{'file': '0.txt', 'na': na, 'twopl': True,
                 'opts': {'criteria': []}, 'ops': []}]
    sc = gen_base(rng, p, sessions=sessions, spy_ties=True)
    sc['giant'] = True
    return sc


def build_c13(rng, tier):
    x = rng.random()
    if x < GIANT_LANE.get(tier, 0):
        return build_c13_giant(rng)
    if x < 0.002:
        return build_c13_huge(rng)
    if x < 0.02:
        return build_c13_sweep(rng)
    mp = rng.choice(['ha', 'sm', 'hr', 'spa', 'spa'])
    p = gen_params(rng, mp=mp, big_lists=True,
                   twopl=(rng.random() < 0.8))
    n2 = p.get('n2', p['n1'])
    p['pmax'] = rng.randint(max(1, min(n2, 6) - 2), min(n2, 6))
    p['pmin'] = rng.randint(1, p['pmax'])
    p['t1'] = rng.choice([.3, .5, .7, 1])
    if mp != 'ha':
        p['t2'] = rng.choice([.3, .5, .7, 1])
    p['numinst'] = rng.choice([1, 2])
    na = 3 if mp == 'spa' else 2
    sessions = [{'file': '%d.txt' % k, 'na': na, 'twopl': bool(p['twopl']),
                 'opts': {'criteria': []}, 'ops': []}
                for k in range(p['numinst'])]
    return gen_base(rng, p, sessions=sessions, spy_ties=True)


def build_c09_big(rng, tier):
    """generate -> solve at scale: real CBC, oracles without enumeration"""
    mp = rng.choice(['ha', 'sm', 'hr', 'spa', 'spa'])
    p = gen_params(rng, mp=mp)
    p['n1'] = rng.randint(10, 24)
    if mp != 'sm':
        p['n2'] = rng.randint(5, 12)
    n2 = p.get('n2', p['n1'])
    p['pmax'] = rng.randint(1, min(n2, 5))
    p['pmin'] = rng.randint(1, p['pmax'])
    if mp != 'sm':
        p['uq'] = rng.randint(max(n2, p['n1'] - 3), p['n1'] + 6)
        p['lq'] = rng.choice([None, 0, 1, 2])
    if mp == 'spa':
        p['n3'] = rng.randint(2, 6)
        p['luq'] = rng.randint(max(p['n3'], p['n1'] - 3), p['n1'] + 6)
        p['lt'] = rng.choice([None, rng.randint(0, p['luq'])])
        p['llq'] = None
    p['numinst'] = 1
    na = 3 if mp == 'spa' else 2
    twopl = bool(p['twopl'])
    crit = gen_criteria(rng, rng.choice([0, 1, 2]), 1)
    for c in crit:
        if c['name'] == 'gen':
            c['extra'] = []
        if c['name'] == 'gre' and c['extra']:
            c['extra'] = [rng.randint(1, 3)]
    opts = {'criteria': crit, 'pc': rng.random() < 0.3,
            'stab': twopl and rng.random() < 0.5, 'flag_order': None}
    sess = [{'file': '0.txt', 'na': na, 'twopl': twopl, 'opts': opts,
             'big': True,
             'ops': [['solve', {}], ['get_results'], ['get_results_long'],
                     ['get_debug']],
             'backend': {'policy': 'real'}}]
    sc = gen_base(rng, p, sessions=sess)
    sc['big'] = True
    return sc


def build_c09(rng, tier):
    if rng.random() < (0.02 if tier == 'thorough' else 0.01):
        return build_c09_big(rng, tier)
    mp = rng.choice(['ha', 'sm', 'hr', 'spa', 'spa'])
    p = gen_params(rng, mp=mp, small=True)
    wide = rng.random() < 0.06
    if wide:
        # two-digit ids on both sides, lists of length one (2^12 assignments)
        p['n1'] = rng.randint(11, 12)
        if mp != 'sm':
            p['n2'] = rng.randint(11, 12)
            p['uq'] = p['n2'] + rng.randint(0, 4)
            p['lq'] = None
        if mp == 'spa':
            p['luq'] = max(p['luq'], p['n3'])
        p['pmin'] = p['pmax'] = 1
    p['numinst'] = rng.choice([1, 1, 2])
    na = 3 if mp == 'spa' else 2
    twopl = bool(p['twopl'])
    sessions = []
    for k in range(p['numinst']):
        # LP mode with a random admissible option set
        mr = p['pmax']      # upper bound on the maximum rank
        ncrit = rng.choice([0, 1, 1, 2, 3])
        crit = gen_criteria(rng, ncrit, 1)
        for c in crit:      # cut-offs must stay admissible for any max rank
            if c['name'] == 'gen':
                c['extra'] = [1] if c['extra'] else []
            if c['name'] == 'gre' and c['extra']:
                c['extra'] = [rng.randint(1, mr + 1)]
        opts = {'criteria': crit, 'pc': rng.random() < 0.3,
                'stab': twopl and rng.random() < 0.5}
        order = list(range(len(crit) + 5))
        rng.shuffle(order)
        opts['flag_order'] = order
        sessions.append({
            'file': '%d.txt' % k, 'na': na, 'twopl': twopl, 'opts': opts,
            'ops': [['solve', {}], ['get_results'], ['get_results_long'],
                    ['get_debug']],
            'backend': {'policy': rng.choice(POLICIES),
                        'choice_seed': rng.randrange(2 ** 31),
                        'duration_seed': rng.randrange(2 ** 31)}})
        if rng.random() < 0.12:
            sessions[-1]['backend']['value_noise'] = rng.randrange(1, 2 ** 31)
        if wide:
            continue        # brute force would enumerate 13^12 assignments
        sessions.append({
            'file': '%d.txt' % k, 'na': na, 'twopl': twopl,
            'opts': {'criteria': [], 'bf': True, 'pc': rng.random() < 0.4},
            'ops': [['solve', {}], ['get_results'], ['get_debug']],
            'backend': {'policy': 'first'}})
    return gen_base(rng, p, sessions=sessions)


# ---------------------------------------------------------------------------
# C15: single-fault perturbations of a legal vector
# ---------------------------------------------------------------------------
def perturbations(p):
    """All single-fault perturbations of legal parameter set p:
    (label, params, extra) triples."""
    mp = p['mp']
    out = []
    for r in REQUIRED[mp]:
        q = dict(p)
        q[r] = None if r != 'twopl' else False
        out.append(('drop-required:' + r, q, {}))
    for r in ('numinst', 'mp'):
        q = dict(p)
        q[r] = None
        out.append(('drop-required:' + r, q, {}))
    out.append(('drop-required:o', dict(p), {'drop_o': True}))
    n2 = p.get('n2', p['n1'])
    # an inapplicable parameter is inapplicable whatever its value, also
    # when the value equals what the parameter would default to
    banned_values = {'twopl': [True], 'n2': [2, 1, p['n1']], 'n3': [2, 1],
                     't2': [0.5, 0.0, 0, 1.0], 'uq': [n2 + 1, n2, 0],
                     'lq': [1, 0], 'llq': [1, 0], 'luq': [3, 1],
                     'lt': [1, 0]}
    for b in BANNED[mp]:
        for v in banned_values[b]:
            q = dict(p)
            q[b] = v
            out.append(('banned:%s=%r' % (b, v), q, {}))

    def viol(label, **kw):
        q = dict(p)
        q.update(kw)
        out.append(('bound:' + label, q, {}))
    viol('numinst=0', numinst=0)
    viol('n1=0', n1=0)
    if mp != 'sm':
        viol('n2=0', n2=0)
        viol('uq<n2', uq=n2 - 1)
        viol('lq>uq', lq=p['uq'] + 1)
        viol('lq<0', lq=-1)
    if mp == 'spa':
        viol('n3=0', n3=0)
        viol('luq<1', luq=0, lt=None, llq=None)
        viol('lt>luq', lt=p['luq'] + 1)
        viol('llq>lt', llq=(p.get('lt') or 0) + 1)
        viol('lt<0', lt=-1, llq=None)
        viol('llq<0', llq=-1)
    viol('pmin=0', pmin=0)
    viol('pmax=0', pmax=0, pmin=0)
    viol('pmin>pmax', pmin=p['pmax'] + 1)
    viol('pmax>n2', pmax=n2 + 1)
    viol('t1<0', t1=-0.1)
    viol('t1>1', t1=1.1)
    if mp != 'ha':
        viol('t2<0', t2=-0.1)
        viol('t2>1', t2=1.1)
    return out


def build_c15(rng, tier):
    p = gen_params(rng)
    sc = gen_base(rng, p)
    sc['expect'] = 'accept'
    return sc


BUILDERS.update({'C08': build_c08, 'C12': build_c12, 'C13': build_c13,
                 'C09': build_c09, 'C15': build_c15})
