"""Generic exact enumerator for small bounded-integer programs.

This is the engine of the stand-in MILP back end.  It knows nothing about what
the repository's constraints mean: it compiles a pulp.LpProblem (variables with
integer bounds, linear constraints, linear objective), and enumerates every
assignment of a set of *projection variables* that extends to a feasible point,
together with the best objective value over all completions.
"""
import math

import pulp


class StubUnsupported(Exception):
    """Program outside the fragment (unbounded / genuinely continuous var)."""


class Compiled(object):
    def __init__(self, lp, proj_ids):
        vs = lp.variables()
        names = [v.name for v in vs]
        if len(set(names)) != len(names):
            # what a real back end does with the MPS file PuLP writes for such
            # a program: CBC rejects it ("Duplicate row/column")
            dup = sorted(set(n for n in names if names.count(n) > 1))
            raise pulp.PulpSolverError(
                'stand-in back end: duplicate variable names %s' % dup)
        self.vs = vs
        self.idx = dict((id(v), i) for i, v in enumerate(vs))
        n = len(vs)
        self.lo = [0] * n
        self.hi = [0] * n
        for i, v in enumerate(vs):
            if v.lowBound is None or v.upBound is None:
                raise StubUnsupported('unbounded variable ' + v.name)
            if v.cat != 'Integer' and v.lowBound != v.upBound:
                raise StubUnsupported('continuous variable ' + v.name)
            self.lo[i] = int(math.ceil(v.lowBound - 1e-9))
            self.hi[i] = int(math.floor(v.upBound + 1e-9))
        self.cons = []   # (idxs, coefs, sense, rhs)
        self.watch = [[] for _ in range(n)]
        for cname, c in lp.constraints.items():
            idxs, coefs = [], []
            for v, a in c.items():
                if a == 0:
                    continue
                idxs.append(self.idx[id(v)])
                coefs.append(a)
            ci = len(self.cons)
            self.cons.append((idxs, coefs, c.sense, -c.constant))
            for i in idxs:
                self.watch[i].append(ci)
        self.obj = [(self.idx[id(v)], a)
                    for v, a in lp.objective.items() if a != 0]
        self.sense = lp.sense  # 1 = min, -1 = max
        self.proj = [self.idx[i] for i in proj_ids if i in self.idx]
        self.proj_missing = [k for k, i in enumerate(proj_ids)
                             if i not in self.idx]
        projset = set(self.proj)
        self.rest = [i for i in range(n) if i not in projset]

    def canonical(self):
        """Order-independent description of the program (for digests)."""
        names = [v.name for v in self.vs]
        cons = []
        for idxs, coefs, sense, rhs in self.cons:
            cons.append((sorted((names[i], float(a))
                                for i, a in zip(idxs, coefs)), sense,
                         float(rhs)))
        cons.sort()
        return (sorted(zip(names, self.lo, self.hi)), cons,
                sorted((names[i], float(a)) for i, a in self.obj), self.sense)


def propagate(C, lo, hi, queue):
    cons = C.cons
    watch = C.watch
    inq = set(queue)
    floor = math.floor
    ceil = math.ceil
    while queue:
        ci = queue.pop()
        inq.discard(ci)
        idxs, coefs, sense, rhs = cons[ci]
        changed = True
        while changed:
            changed = False
            amin = 0
            amax = 0
            for i, a in zip(idxs, coefs):
                if a > 0:
                    amin += a * lo[i]
                    amax += a * hi[i]
                else:
                    amin += a * hi[i]
                    amax += a * lo[i]
            if sense <= 0 and amin > rhs + 1e-9:
                return False
            if sense >= 0 and amax < rhs - 1e-9:
                return False
            for i, a in zip(idxs, coefs):
                nlo, nhi = lo[i], hi[i]
                if nlo == nhi:
                    continue
                if sense <= 0:   # sum <= rhs
                    own = a * lo[i] if a > 0 else a * hi[i]
                    room = rhs - (amin - own)      # a*x <= room
                    if a > 0:
                        nhi = min(nhi, int(floor(room / a + 1e-9)))
                    else:
                        nlo = max(nlo, int(ceil(room / a - 1e-9)))
                if sense >= 0:   # sum >= rhs
                    own = a * hi[i] if a > 0 else a * lo[i]
                    need = rhs - (amax - own)      # a*x >= need
                    if a > 0:
                        nlo = max(nlo, int(ceil(need / a - 1e-9)))
                    else:
                        nhi = min(nhi, int(floor(need / a + 1e-9)))
                if nlo > nhi:
                    return False
                if nlo != lo[i] or nhi != hi[i]:
                    lo[i] = nlo
                    hi[i] = nhi
                    changed = True
                    for w in watch[i]:
                        if w != ci and w not in inq:
                            inq.add(w)
                            queue.append(w)
                    break
    return True


def fix(C, lo, hi, i, val):
    lo = lo[:]
    hi = hi[:]
    lo[i] = hi[i] = val
    if propagate(C, lo, hi, list(C.watch[i])):
        return lo, hi
    return None


def best_completion(C, lo, hi, order, rng=None):
    """(z, point) of a best-objective completion (z in minimisation form),
    or None if the partial assignment cannot be completed."""
    best = [None]
    objcoef = dict((i, a * C.sense) for i, a in C.obj)

    def rec(lo, hi):
        zlb = 0
        for i, a2 in objcoef.items():
            zlb += a2 * lo[i] if a2 > 0 else a2 * hi[i]
        if best[0] is not None and zlb >= best[0][0] - 1e-12:
            return
        pick = None
        for i in objcoef:
            if lo[i] != hi[i]:
                pick = i
                break
        if pick is None:
            for i in order:
                if lo[i] != hi[i]:
                    pick = i
                    break
        if pick is None:
            best[0] = (zlb, lo)
            return
        vals = list(range(lo[pick], hi[pick] + 1))
        coef = objcoef.get(pick, 0)
        if coef < 0:
            vals.reverse()
        elif coef == 0 and rng is not None:
            rng.shuffle(vals)
        for v in vals:
            r = fix(C, lo, hi, pick, v)
            if r is not None:
                rec(*r)
                if best[0] is not None and coef == 0 and best[0][0] <= zlb + 1e-12:
                    return
    rec(lo, hi)
    return best[0]


def enumerate_opt(C, rng=None, cap=None):
    """All (projection assignment, z, point) that extend to a feasible point."""
    lo = C.lo[:]
    hi = C.hi[:]
    if not propagate(C, lo, hi, list(range(len(C.cons)))):
        return []
    out = []
    proj = C.proj
    nproj = len(proj)

    def rec(k, lo, hi):
        while k < nproj and lo[proj[k]] == hi[proj[k]]:
            k += 1
        if k == nproj:
            bc = best_completion(C, lo, hi, C.rest, rng)
            if bc is not None:
                out.append((tuple(bc[1][i] for i in proj), bc[0], bc[1]))
                if cap is not None and len(out) > cap:
                    raise StubUnsupported('more than %d projections' % cap)
            return
        i = proj[k]
        for v in range(lo[i], hi[i] + 1):
            r = fix(C, lo, hi, i, v)
            if r is not None:
                rec(k + 1, *r)
    rec(0, lo, hi)
    return out


def solve_all(lp, proj_ids, rng=None, cap=200000):
    """Returns (C, sols, zbest).  sols = [(proj_tuple, z_min_form, point)]."""
    C = Compiled(lp, proj_ids)
    sols = enumerate_opt(C, rng, cap)
    zb = min([z for _, z, _ in sols]) if sols else None
    return C, sols, zb
