"""Structured small instances: seeded builder, renderer to the documented file
format, and shrink moves used by the minimiser.

inst = {
  'na': 2 | 3, 'twopl': bool,
  'students': [ [[p],[p,p]], ... ]        tie groups per student
  'projects': [ {'lq','uq','lec'} ]       'lec' only meaningful for na == 3
  'lecturers': [ {'lq','t','uq'} ]        na == 3 only
  'lists2': [ [[s],[s,s]], ... ] | None   hospital (na 2) / lecturer (na 3) lists
  'ws': int (0 = canonical spacing), 'trailer': bool
}
"""
import copy
import random


def _fmt_groups(groups):
    out = []
    for g in groups:
        if len(g) == 1:
            out.append(str(g[0]))
        else:
            toks = [str(x) for x in g]
            toks[0] = '(' + toks[0]
            toks[-1] = toks[-1] + ')'
            out += toks
    return out


def render(inst):
    ws = inst.get('ws', 0)
    r = random.Random(ws)

    def sep():
        if not ws:
            return ' '
        if ws % 29 == 0:     # anything str.split() treats as whitespace
            return r.choice([' ', '\t', '\x0c', '\x0b', ' \x1c', '\x85 '])
        return r.choice([' ', ' ', '  ', '\t', '   '])

    def line(fields, lst):
        # fields: leading colon-terminated fields; lst: list tokens
        s = ''
        for f in fields:
            s += str(f) + ':' + sep()
        s += sep().join(lst) if ws else ' '.join(lst)
        if ws and r.random() < 0.3:
            s += sep()
        return s.rstrip(' ') if not ws else s

    na = inst['na']
    n1 = len(inst['students'])
    n2 = len(inst['projects'])
    L = []
    if na == 3:
        L.append('%d%s%d%s%d' % (n1, sep(), n2, sep(), len(inst['lecturers'])))
    else:
        L.append('%d%s%d' % (n1, sep(), n2))
    for i, groups in enumerate(inst['students']):
        L.append(line([i + 1], _fmt_groups(groups)))
    lists2 = inst.get('lists2')
    for j, p in enumerate(inst['projects']):
        if na == 3:
            L.append(line([j + 1, p['lq'], p['uq']], [str(p['lec'])]))
        else:
            lst = _fmt_groups(lists2[j]) if lists2 else []
            L.append(line([j + 1, p['lq'], p['uq']], lst))
    if na == 3:
        for k, l in enumerate(inst['lecturers']):
            lst = _fmt_groups(lists2[k]) if lists2 else []
            L.append(line([k + 1, l['lq'], l['t'], l['uq']], lst))
    text = '\n'.join(L) + '\n'
    if inst.get('trailer'):
        text += '\ninstance generation parameters\n'
        text += 'number_of_agents_type_1: %d\n' % n1
        text += 'number_of_agents_type_2: %d\n' % n2
        text += 'min_pref_list_length: 0\nmax_pref_list_length: 3\n'
    return text


def _tie_groups(lst, density, rng):
    groups = []
    i = 0
    while i < len(lst):
        j = i
        while j + 1 < len(lst) and rng.random() < density:
            j += 1
        groups.append(list(lst[i:j + 1]))
        i = j + 1
    return groups


def flat(groups):
    return [x for g in groups for x in g]


def fix_lists2(inst, rng=None):
    """Make second-side lists rank exactly the students that find the agent
    acceptable, keeping existing order/ties where possible."""
    if inst.get('lists2') is None:
        return
    na = inst['na']
    n1 = len(inst['students'])
    n_second = len(inst['lecturers']) if na == 3 else len(inst['projects'])
    want = [set() for _ in range(n_second)]
    for i, groups in enumerate(inst['students']):
        for p in flat(groups):
            k = inst['projects'][p - 1]['lec'] if na == 3 else p
            want[k - 1].add(i + 1)
    old = inst['lists2']
    new = []
    for k in range(n_second):
        groups = []
        seen = set()
        for g in (old[k] if k < len(old) else []):
            g2 = [s for s in g if s in want[k] and s not in seen]
            seen.update(g2)
            if g2:
                groups.append(g2)
        for s in sorted(want[k] - seen):
            groups.append([s])
        new.append(groups)
    inst['lists2'] = new


def gen_instance(rng, sw=None, thorough=False):
    """Seeded hand-shaped instance.  `sw` = swarm switches."""
    sw = sw or {}
    na = sw.get('na') or rng.choice([2, 3])
    twopl = sw['twopl'] if 'twopl' in sw else (rng.random() < 0.7)
    n1 = rng.randint(1, 5 if thorough else 4)
    n2 = rng.randint(1, 4)
    shape = sw.get('shape') or rng.choice(
        ['small'] * 40 + ['many-projects', 'many-students', 'wide-both',
                          'long-lists', 'high-ids'])
    if shape == 'many-projects':       # two-digit project / lecturer ids
        n2 = rng.randint(9, 12)
    n3 = rng.randint(1, 3) if na == 3 else n2
    if na == 3 and rng.random() < 0.15:
        n3 = rng.randint(n2, n2 + 2)      # more lecturers than projects
    if shape == 'many-students':       # two-digit student ids, short lists
        n1 = rng.randint(8, 13)
    if shape == 'wide-both':           # two-digit ids on both sides
        n1 = rng.randint(11, 12)
        n2 = rng.randint(11, 13)
        n3 = rng.randint(1, 3) if na == 3 else n2
    if shape == 'long-lists':          # one to three students, 10-18 choices
        n1 = rng.randint(1, 3)
        n2 = rng.randint(10, 18)
        n3 = rng.randint(1, 3) if na == 3 else n2
    if shape == 'high-ids':            # ids beyond 256 with few real choices
        n1 = rng.randint(1, 4)
        if na == 3 and rng.random() < 0.5:
            n2 = rng.randint(1, 4)
            n3 = rng.randint(257, 300)
        else:
            n2 = rng.randint(257, 320)
            n3 = rng.randint(1, 3) if na == 3 else n2
    if shape == 'boundary':            # real-CBC lane: sizes around 2^k, 10^k
        n1 = rng.choice([63, 64, 65, 65, 66, 99, 100, 101, 127, 128, 129,
                         129, 130] +
                        ([255, 256, 257, 258] if thorough else []))
        n2 = rng.randint(1, 3)
        n3 = rng.randint(1, 2) if na == 3 else n2
    if shape == 'big':                 # real-CBC lane at scale, no enumeration
        n1 = rng.randint(10, 24) if rng.random() < 0.75 else \
            rng.randint(25, 40)
        n2 = rng.randint(5, 12)
        n3 = rng.randint(2, 6) if na == 3 else n2
    ties1 = sw.get('ties1', rng.choice([0, 0, .3, .7, 1]))
    if shape == 'long-lists' and rng.random() < 0.6:
        ties1 = 0                      # ten or more distinct ranks
    ties2 = sw.get('ties2', rng.choice([0, 0, .3, .7, 1]))
    maxlen = min(n2, 5 if shape == 'big' else 3)
    if shape == 'long-lists':
        maxlen = n2 if n1 == 1 else (min(n2, 16) if n1 == 2 else 10)
    students = []
    for i in range(n1):
        k = rng.randint(0 if rng.random() < 0.25 else 1, maxlen)
        if shape in ('many-students', 'wide-both'):
            k = min(k, 1)              # keeps the assignment space <= 2^12
        elif shape == 'many-projects':
            k = min(k, 2) if n1 > 3 else k
        if shape == 'long-lists' and i == 0:
            k = rng.randint(max(1, maxlen - 4), maxlen)   # at least one long
        if shape == 'high-ids':
            # prefer the highest-numbered projects
            pool = list(range(max(1, n2 - 3), n2 + 1))
            pl = rng.sample(pool, min(k, len(pool)))
        elif shape == 'boundary':
            pl = [1] + rng.sample(range(2, n2 + 1), min(max(k - 1, 0),
                                                        n2 - 1))
        else:
            pl = rng.sample(range(1, n2 + 1), k)
        students.append(_tie_groups(pl, ties1, rng))
    if not any(students):
        students[rng.randrange(n1)] = [[rng.randint(1, n2)]]
    zero_cap = sw.get('zero_cap', rng.random() < 0.3)
    lowq = sw.get('lowq', rng.random() < 0.4)
    # with many students, capacities sometimes scale with them, so that one
    # project / lecturer can hold many assignees (long listing lines)
    roomy = (n1 >= 8 and rng.random() < 0.5) or shape == 'boundary'
    pcap = max(3, n1) if roomy else 3
    lcap = max(4, n1) if roomy else 4
    projects = []
    for j in range(n2):
        uq = rng.randint(0 if zero_cap and rng.random() < 0.4 else 1, pcap)
        lq = rng.randint(0, uq) if lowq and rng.random() < 0.5 else 0
        lec = rng.randint(1, n3) if na == 3 else j + 1
        if shape == 'high-ids' and na == 3 and n3 > 256:
            lec = rng.randint(n3 - 2, n3)
        projects.append({'lq': lq, 'uq': uq, 'lec': lec})
    lecturers = []
    if na == 3:
        for k in range(n3):
            uq = rng.randint(0 if zero_cap and rng.random() < 0.4 else 1,
                             lcap)
            t = rng.randint(0, uq)
            lq = rng.randint(0, t) if lowq and rng.random() < 0.4 else 0
            lecturers.append({'lq': lq, 't': t, 'uq': uq})
    inst = {'na': na, 'twopl': twopl, 'students': students,
            'projects': projects, 'lecturers': lecturers,
            'lists2': None, 'ws': 0, 'trailer': rng.random() < 0.3}
    if twopl or rng.random() < 0.5:
        n_second = n3 if na == 3 else n2
        inst['lists2'] = [[] for _ in range(n_second)]
        fix_lists2(inst)
        new = []
        for groups in inst['lists2']:
            lst = flat(groups)
            rng.shuffle(lst)
            new.append(_tie_groups(lst, ties2, rng))
        inst['lists2'] = new
    if rng.random() < 0.25:
        inst['ws'] = rng.randint(1, 10 ** 6)
    return inst


# ---------------------------------------------------------------------------
# shrink moves (each yields a smaller / simpler well-formed instance)
# ---------------------------------------------------------------------------
def _renumber_after_project_removal(inst, j):
    for groups in inst['students']:
        for g in groups:
            g[:] = [p - 1 if p > j else p for p in g if p != j]
        groups[:] = [g for g in groups if g]


def shrink_candidates(inst):
    na = inst['na']
    n1 = len(inst['students'])
    n2 = len(inst['projects'])
    # remove a student
    for i in range(n1):
        if n1 <= 1:
            break
        c = copy.deepcopy(inst)
        del c['students'][i]
        if c.get('lists2') is not None:
            for groups in c['lists2']:
                for g in groups:
                    g[:] = [s - 1 if s > i + 1 else s for s in g if s != i + 1]
                groups[:] = [g for g in groups if g]
        if any(c['students']):
            fix_lists2(c)
            yield c
    # remove a project
    for j in range(1, n2 + 1):
        if n2 <= 1:
            break
        c = copy.deepcopy(inst)
        _renumber_after_project_removal(c, j)
        del c['projects'][j - 1]
        if na == 2 and c.get('lists2') is not None:
            del c['lists2'][j - 1]
        if any(c['students']):
            fix_lists2(c)
            yield c
    # remove a lecturer (na 3) that supervises nothing or merge into another
    if na == 3:
        n3 = len(inst['lecturers'])
        for k in range(1, n3 + 1):
            if n3 <= 1:
                break
            c = copy.deepcopy(inst)
            for p in c['projects']:
                if p['lec'] == k:
                    p['lec'] = 1 if k != 1 else 2
            for p in c['projects']:
                if p['lec'] > k:
                    p['lec'] -= 1
                elif p['lec'] == k:
                    p['lec'] = k - 1 if k > 1 else 1
            del c['lecturers'][k - 1]
            if c.get('lists2') is not None:
                del c['lists2'][k - 1]
            fix_lists2(c)
            yield c
    # remove a list entry
    for i in range(n1):
        ents = flat(inst['students'][i])
        for p in ents:
            c = copy.deepcopy(inst)
            for g in c['students'][i]:
                if p in g:
                    g.remove(p)
            c['students'][i] = [g for g in c['students'][i] if g]
            if any(c['students']):
                fix_lists2(c)
                yield c
    # untie
    for i in range(n1):
        if any(len(g) > 1 for g in inst['students'][i]):
            c = copy.deepcopy(inst)
            c['students'][i] = [[p] for p in flat(c['students'][i])]
            yield c
    if inst.get('lists2') is not None:
        for k in range(len(inst['lists2'])):
            if any(len(g) > 1 for g in inst['lists2'][k]):
                c = copy.deepcopy(inst)
                c['lists2'][k] = [[s] for s in flat(c['lists2'][k])]
                yield c
    # lower quotas / targets
    for j in range(n2):
        p = inst['projects'][j]
        if p['lq'] > 0:
            c = copy.deepcopy(inst)
            c['projects'][j]['lq'] -= 1
            yield c
        if p['uq'] > max(1, p['lq']):
            c = copy.deepcopy(inst)
            c['projects'][j]['uq'] -= 1
            yield c
    if na == 3:
        for k in range(len(inst['lecturers'])):
            l = inst['lecturers'][k]
            if l['lq'] > 0:
                c = copy.deepcopy(inst)
                c['lecturers'][k]['lq'] -= 1
                yield c
            if l['t'] > l['lq']:
                c = copy.deepcopy(inst)
                c['lecturers'][k]['t'] -= 1
                yield c
            if l['uq'] > max(1, l['t']):
                c = copy.deepcopy(inst)
                c['lecturers'][k]['uq'] -= 1
                yield c
    if inst.get('ws'):
        c = copy.deepcopy(inst)
        c['ws'] = 0
        yield c
    if inst.get('trailer'):
        c = copy.deepcopy(inst)
        c['trailer'] = False
        yield c
