#!/venv/bin/python
"""Prints the markdown tables of DESIGN.md section 18 from the recorded
sensitivity runs:
   sensitivity.json                 hand-made mutants, target checks
   sensitivity_seeded.json          seeded changes, target (+ expected) checks
                                    at the full quick budget
   sensitivity_seeded_matrix.json   seeded changes x all checks at a fraction
                                    of the quick budget (lower bound)
   seeded/*/meta.json               what each change is
"""
import glob
import json
import os
import sys

VERIF = os.path.dirname(os.path.dirname(os.path.abspath(__file__)))


def sig_short(c):
    out = []
    for s in c.get('signatures', [])[:2]:
        out.append(s.replace('signature=', '').split(' runs=')[0])
    return '; '.join(out)


def hand():
    rows = json.load(open(os.path.join(VERIF, 'sensitivity.json')))
    print('| mutant | 35 tests | caught by (first signatures) |')
    print('|---|---|---|')
    for r in rows:
        caught = ', '.join('%s (%s)' % (p, sig_short(c))
                           for p, c in r.get('checks', {}).items()
                           if c['exit'] == 1) or '— (equivalent mutant, see 16)'
        print('| %s | %s | %s |' % (r['mutant'],
                                    'pass' if r.get('tests_pass') else 'fail',
                                    caught))


def _load(name):
    p = os.path.join(VERIF, name)
    if not os.path.exists(p):
        return {}, None
    d = json.load(open(p))
    scale = None
    if isinstance(d, dict):
        scale = d.get('scale')
        d = d['results']
    return dict((r['mutant'], r) for r in d), scale


def seeded():
    target, _ = _load('sensitivity_seeded.json')
    matrix, scale = _load('sensitivity_seeded_matrix.json')
    print('| id | written against | what it is / what it needs (abridged) | '
          'full quick budget: caught by | all checks at %s of the quick '
          'budget: caught by |' % (scale,))
    print('|---|---|---|---|---|')
    n = n_target = n_any = 0
    for d in sorted(glob.glob(os.path.join(VERIF, 'seeded', '*'))):
        sid = os.path.basename(d)
        meta = json.load(open(os.path.join(d, 'meta.json')))
        tgt = meta['property']
        t = target.get(sid, {}).get('checks', {})
        m = matrix.get(sid, {}).get('checks', {})
        tc = sorted(p for p, c in t.items() if c['exit'] == 1)
        mc = sorted(p for p, c in m.items() if c['exit'] == 1)
        n += 1
        n_target += tgt in tc
        n_any += bool(tc or mc)
        note = ''
        if not (tc or mc):
            note = ' **not caught** — ' + meta.get('note', '')
        elif tgt not in tc and meta.get('note'):
            note = ' (' + meta['note'] + ')'
        print('| %s | %s | %s%s | %s | %s |' % (
            sid, tgt, meta.get('summary', ''), note,
            ', '.join(tc) or '—', ', '.join(mc) or '—'))
    print()
    print('%d seeded changes; %d caught by the check of the property they '
          'were written against (full quick budget); %d caught by some '
          'check.' % (n, n_target, n_any))


if __name__ == '__main__':
    (hand if sys.argv[1:] == ['hand'] else seeded)()
