#!/venv/bin/python
"""Prints the markdown tables of DESIGN.md sections 16/17 from the recorded
sensitivity runs (sensitivity.json, sensitivity_seeded*.json, seeded/*/meta.json)."""
import glob
import json
import os
import sys

VERIF = os.path.dirname(os.path.dirname(os.path.abspath(__file__)))


def sig_short(c):
    out = []
    for s in c.get('signatures', [])[:2]:
        out.append(s.replace('signature=', '').split(' runs=')[0])
    return '; '.join(out)


def hand():
    rows = json.load(open(os.path.join(VERIF, 'sensitivity.json')))
    print('| mutant | 35 tests | caught by (first signatures) |')
    print('|---|---|---|')
    for r in rows:
        caught = ', '.join('%s (%s)' % (p, sig_short(c))
                           for p, c in r.get('checks', {}).items()
                           if c['exit'] == 1) or '— (see text)'
        print('| %s | %s | %s |' % (r['mutant'],
                                    'pass' if r.get('tests_pass') else 'fail',
                                    caught))


def seeded():
    recs = {}
    for f in sorted(glob.glob(os.path.join(VERIF, 'sensitivity_seeded*.json'))):
        for r in json.load(open(f)):
            cur = recs.setdefault(r['mutant'], {})
            for p, c in r.get('checks', {}).items():
                cur[p] = c
    print('| id | breaks | what it needs to manifest (author\'s words, abridged) '
          '| caught by | not caught by target? |')
    print('|---|---|---|---|---|')
    for d in sorted(glob.glob(os.path.join(VERIF, 'seeded', '*'))):
        sid = os.path.basename(d)
        meta = json.load(open(os.path.join(d, 'meta.json')))
        checks = recs.get(sid, {})
        caught = sorted(p for p, c in checks.items() if c['exit'] == 1)
        tgt = meta['property']
        miss = '' if tgt in caught else (
            'target %s quiet: %s' % (tgt, meta.get('note', '')))
        summ = meta.get('summary') or ''
        print('| %s | %s | %s | %s | %s |' % (sid, tgt, summ,
                                              ', '.join(caught) or '—', miss))


if __name__ == '__main__':
    (hand if sys.argv[1:] == ['hand'] else seeded)()
