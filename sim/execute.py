"""Execute one scenario in the simulated world and record what happened.

Executing a scenario is a pure function of (scenario JSON, code under /repo):
tie-breaks come from Random(choice_seed), durations from the clock plan, RNG
state of the generator from the two seeds in the scenario.  Nothing reads a
real clock or an unseeded PRNG.
"""
import contextlib
import io
import os
import random
import re
import signal
import sys
import traceback

import world
from world import HarnessError

REPO = world.REPO


class RunTimeout(BaseException):
    pass


# every scenario this process has executed, in order (process history is
# part of the schedule: a child forked per chunk starts with an empty log)
EXEC_LOG = []

# wall-clock cap per run, seconds (runs normally take milliseconds)
WALL_CAP = float(os.environ.get('VERIF_WALL_CAP', '60'))


class Trace(object):
    def __init__(self):
        self.events = []
        self.calls = []          # dict(op, ok, text | exc)
        self.rounds = []
        self.spy = []
        self.t_entry = None
        self.t_solve_return = []
        self.model_view = None
        self.opt_view = None
        self.inst_text = None
        self.timeout = False
        self.files = {}          # generator: name -> text
        self.listing = None
        self.stderr = ''
        self.tie_calls = []
        self.clock_seconds = 0.0
        self.fired = {}
        self.timeout_in_backend = False
        self.solver_sessions = []   # gen family: list of sub traces
        self.intruders = []
        self.backend = None

    def digest(self):
        return world.digest(self.events)


def _site(tb):
    """innermost frame inside the repository: 'file:function'."""
    site = None
    for fs in traceback.extract_tb(tb):
        fn = fs.filename
        if fn.startswith(REPO + os.sep) and '/test/' not in fn:
            site = '%s:%s' % (os.path.relpath(fn, REPO), fs.name)
    return site


def _exc_record(e):
    return {'type': type(e).__name__,
            'msg': str(e)[:200],
            'code': getattr(e, 'code', None) if isinstance(e, SystemExit)
            else None,
            'site': _site(e.__traceback__),
            'tb': ''.join(traceback.format_exception(
                type(e), e, e.__traceback__))[-1500:]}


_PULP_TMP = re.compile(r'[0-9a-f]{32}-pulp\.\w+$')


SOLVER_ALIASES = {
    '-f': '-filename', '-na': '-numagents',
    '-twopl': '-twosidedpreferencelists', '-pc': '-projectclosures',
    '-stab': '-stability', '-maxsize': '-maximisesize',
    '-minsize': '-minimisesize', '-gen': '-generous', '-gre': '-greedy',
    '-mincost': '-minimisecost', '-minsqcost': '-minimisesquaredcost',
    '-mincostlsb': '-minimisecostloadsumbalanced',
    '-lmb': '-loadmaxbalanced', '-lsb': '-loadsumbalanced',
    '-bf': '-bruteforce'}


def _alias(groups, table, seed):
    """README documents a long spelling for every flag: use it for a seeded
    subset of the flags."""
    if not seed:
        return groups
    r = random.Random(seed)
    out = []
    for g in groups:
        if g and g[0] in table and r.random() < 0.5:
            g = [table[g[0]]] + g[1:]
        if len(g) >= 2 and g[0] not in ('-f', '-filename') and \
                r.random() < 0.15:
            # int() also reads '+2' and '02'
            g = [g[0]] + [('+' + x if r.random() < 0.5 else '0' + x)
                          if x.isdigit() else x for x in g[1:]]
        if len(g) == 2 and len(g[0]) > 2 and r.random() < 0.3:
            g = [g[0] + '=' + g[1]]        # argparse's flag=value spelling
        out.append(g)
    return out


def build_argv(path, na, twopl, opts):
    """Solver argument vector from the structured option set."""
    if opts.get('raw_argv') is not None:
        out = []
        for a in opts['raw_argv']:
            out.append(path if a == '{file}' else a)
        return out
    groups = []
    for c in opts.get('criteria', []):
        g = ['-' + c['name'], str(c['pos'])] + [str(x) for x in
                                                (c.get('extra') or [])]
        groups.append(g)
    if opts.get('pc'):
        groups.append(['-pc'])
    if opts.get('stab'):
        groups.append(['-stab'])
    if opts.get('bf'):
        groups.append(['-bf'])
    if twopl:
        groups.append(['-twopl'])
    groups.append(['-f', path])
    groups.append(['-na', str(na)])
    order = opts.get('flag_order')
    if order:
        order = [i for i in order if i < len(groups)]
        rest = [i for i in range(len(groups)) if i not in order]
        groups = [groups[i] for i in order + rest]
    groups = _alias(groups, SOLVER_ALIASES, opts.get('alias_seed'))
    argv = []
    for g in groups:
        argv += g
    return argv


def criteria_in_order(opts):
    cs = sorted(opts.get('criteria', []), key=lambda c: c['pos'])
    return [(c['name'], list(c.get('extra') or [])) for c in cs]


def _pairs_provider_factory(holder, n1_hint):
    """Which variables of the program are the student-project decisions.
    Returns (ids, pairs, n1, trusted).  trusted = identified through the
    documented attribute Pair.lp_var or the documented variable names
    "(student,project)"; otherwise a guess that is good enough to enumerate
    efficiently but is not offered to the oracles as FEAS/OPT sets."""
    import pulp as _pulp

    def provider(lp=None):
        s = holder.get('solver')
        m = getattr(s, 'model', None)
        ids, pairs = [], []
        try:
            for row in m.pairs:
                for p in row:
                    ids.append(id(p.lp_var))
                    pairs.append((p.studentID, p.projectID))
            return ids, pairs, m.num_students, True
        except AttributeError:
            pass
        ids, pairs = [], []
        pat = re.compile(r'^\((\d+),(\d+)\)$')
        n1 = n1_hint or 0
        if lp is not None:
            for v in lp.variables():
                mm = pat.match(v.name)
                if mm:
                    ids.append(id(v))
                    pairs.append((int(mm.group(1)), int(mm.group(2))))
                    n1 = max(n1, int(mm.group(1)))
        if ids:
            return ids, pairs, n1, True
        # guess: the first LpVariable attribute of every Pair object
        try:
            for row in m.pairs:
                for p in row:
                    for val in vars(p).values():
                        if isinstance(val, _pulp.LpVariable):
                            ids.append(id(val))
                            pairs.append((p.studentID, p.projectID))
                            break
        except Exception:
            pass
        return ids, pairs, n1, False
    return provider


def _model_view(solver):
    m = solver.model
    view = {}
    for a in ('num_students', 'num_projects', 'num_lecturers',
              'proj_lower_quotas', 'proj_upper_quotas', 'lec_lower_quotas',
              'lec_targets', 'lec_upper_quotas', 'proj_lecturers'):
        v = getattr(m, a, None)
        view[a] = list(v) if isinstance(v, (list, tuple)) else v
    rows = []
    for row in m.pairs:
        r = []
        for p in row:
            r.append((p.studentID, p.projectID, p.rank_student,
                      getattr(p, 'lecturerID', None),
                      getattr(p, 'rank_lecturer', None)))
        rows.append(r)
    view['pairs'] = rows
    return view


class _Alarm(object):
    def __init__(self, seconds, tr):
        self.seconds = seconds
        self.tr = tr

    def __enter__(self):
        if self.seconds and hasattr(signal, 'SIGALRM'):
            def handler(signum, frame):
                raise RunTimeout()
            self.old = signal.signal(signal.SIGALRM, handler)
            signal.setitimer(signal.ITIMER_REAL, self.seconds)
        return self

    def __exit__(self, *a):
        if self.seconds and hasattr(signal, 'SIGALRM'):
            signal.setitimer(signal.ITIMER_REAL, 0)
            signal.signal(signal.SIGALRM, self.old)
        return False


def solver_session(tr, path, na, twopl, opts, ops, backend_cfg, clock,
                   log, n1_hint=None, prefer=None, xcheck=None, byz=None,
                   keep_sets=True):
    """Drive the real Solver API on `path`.  Appends to tr.calls/rounds."""
    from matchingproblems import solver as solver_pkg
    holder = {}
    byz_list = list(byz or [])

    def byz_provider():
        return byz_list.pop(0)

    be = world.SimBackend(backend_cfg, clock, log,
                          _pairs_provider_factory(holder, n1_hint),
                          prefer=prefer, xcheck=xcheck,
                          byz_provider=byz_provider, keep_sets=keep_sets)
    def closure_provider():
        m = getattr(holder.get('solver'), 'model', None)
        try:
            return [(v, j + 1) for j, v in enumerate(m.project_closures)]
        except Exception:
            return []
    be.closure_provider = closure_provider
    tr.backend = be
    undo_b = world.install_backend(be)
    undo_c = world.install_clock(clock)
    argv = build_argv(path, na, twopl, opts)
    shown = [a.replace(path, '{file}') if isinstance(a, str) else a
             for a in argv]
    idle_rng = random.Random(backend_cfg.get('idle_seed', 0))
    try:
        tr.t_entry = clock.seconds()
        log('api.call', ('Solver', shown))
        err = io.StringIO()
        try:
            with contextlib.redirect_stderr(err):
                s = solver_pkg.Solver(argv)
            holder['solver'] = s
            tr.calls.append({'op': 'construct', 'ok': True})
            log('api.return', ('Solver',))
        except HarnessError:
            raise
        except RunTimeout:
            raise
        except BaseException as e:
            rec = _exc_record(e)
            tr.calls.append({'op': 'construct', 'ok': False, 'exc': rec})
            tr.stderr = err.getvalue()
            log('api.raise', ('Solver', rec['type'], rec['site'], rec['code']))
            return
        try:
            tr.model_view = _model_view(s)
        except Exception as e:           # documented attributes missing
            tr.model_view = {'error': repr(e)}
        try:
            tr.opt_view = [(getattr(o[0], 'name', str(o[0])),
                            list(o[1] or []))
                           for o in s.options_parser.optimisation_options]
        except Exception as e:
            tr.opt_view = {'error': repr(e)}
        for op in ops:
            name = op[0]
            kw = op[1] if len(op) > 1 else {}
            if name == 'idle':
                clock.advance(kw.get('seconds', 10 ** idle_rng.uniform(-3, 3)))
                log('idle', (clock.t,))
                continue
            if name == 'clobber':
                # the environment changes under the object: the instance
                # file is deleted or overwritten after construction
                try:
                    if kw.get('mode') == 'delete':
                        os.remove(path)
                    else:
                        with open(path, 'w') as f:
                            f.write(kw.get('text', ''))
                except OSError:
                    pass
                log('env.clobber', (kw.get('mode'),))
                continue
            if name == 'intruder':
                # another Solver object, on another instance, constructed,
                # solved and queried in between: objects must not share state
                import instances
                sub = Trace()
                sub.events = tr.events
                ipath = os.path.join(os.path.dirname(path),
                                     'intruder%d.txt' % len(tr.intruders))
                with open(ipath, 'w') as f:
                    f.write(instances.render(kw['inst']))
                tr.intruders.append(sub)
                undo_b()      # the intruder talks to its own back end
                try:
                    solver_session(sub, ipath, kw['na'], kw['twopl'],
                                   kw.get('opts', {}),
                                   kw.get('ops', [['solve', {}],
                                                  ['get_results']]),
                                   kw.get('backend', {}), clock, log)
                finally:
                    undo_b = world.install_backend(be)
                    world.install_clock(clock)
                continue
            log('api.call', (name, kw))
            try:
                if name == 'check_stability':
                    # the library's stability check called directly on the
                    # object's Model (C06 observes its return value), any
                    # number of times between solves
                    M = kw['assignment']
                    lst = []
                    for i, row in enumerate(s.model.pairs):
                        want = M[i] if i < len(M) else 0
                        hit = None
                        for p in row:
                            if want and p.projectID == want:
                                hit = p
                                break
                        if want and hit is None:
                            raise HarnessError(
                                'assignment %r not on the lists' % (M,))
                        lst.append(hit)
                    r = s.model.check_stability(lst)
                    text = '%s:%r' % (type(r).__name__, r)
                elif name == 'solve':
                    be.solve_index += 1
                    call_kw = dict(kw)
                    tl_type = call_kw.pop('tl_type', None)
                    positional = call_kw.pop('positional', False)
                    if tl_type and call_kw.get('timeLimit') is not None:
                        import numpy
                        call_kw['timeLimit'] = getattr(numpy, tl_type)(
                            call_kw['timeLimit'])
                    if positional:
                        # the documented order: msg, timeLimit, threads, write
                        r = s.solve(call_kw.get('msg', False),
                                    call_kw.get('timeLimit'))
                    else:
                        r = s.solve(**call_kw)
                    tr.t_solve_return.append(clock.seconds())
                    text = None
                else:
                    text = getattr(s, name)()
                tr.calls.append({'op': name, 'ok': True, 'text': text,
                                 'solve_index': be.solve_index, 'kw': kw})
                log('api.return', (name, None if text is None else
                                   world.hashlib.sha256(
                                       text.encode()).hexdigest()[:16]))
            except HarnessError:
                raise
            except RunTimeout:
                raise
            except BaseException as e:
                rec = _exc_record(e)
                if name == 'solve':
                    tr.t_solve_return.append(clock.seconds())
                tr.calls.append({'op': name, 'ok': False, 'exc': rec,
                                 'solve_index': be.solve_index, 'kw': kw})
                log('api.raise', (name, rec['type'], rec['site']))
    finally:
        undo_c()
        undo_b()
        tr.rounds.extend(be.rounds)
        for k, v in be.fired.items():
            tr.fired[k] = tr.fired.get(k, 0) + v


def _mk_log(tr, clock):
    def log(kind, payload):
        tr.events.append((len(tr.events), clock.t, kind, payload))
    return log


def _spy_sink(tr, log):
    def sink(ev):
        kind, rel = ev
        rel = _PULP_TMP.sub('pulp-tmp', rel)
        if rel.endswith('pulp-tmp') or rel == 'pulp-tmp':
            return
        tr.spy.append((kind, rel))
        log('fs', (kind, rel))
    return sink


def run_lp(sc, prefer=None, xcheck=None, wall_cap=None, keep_sets=True):
    """family 'lp': instance text + solver options + API ops."""
    import instances
    EXEC_LOG.append(sc)
    tr = Trace()
    if wall_cap is None:
        wall_cap = WALL_CAP
    clock = world.SimClock(sc.get('clock_seed', 0))
    log = _mk_log(tr, clock)
    clock.log = log
    d = world.make_run_dir()
    old_tmp = os.environ.get('TMPDIR')
    os.environ['TMPDIR'] = d
    old_cwd = None
    try:
        text = sc.get('inst_text')
        if text is None:
            text = instances.render(sc['inst'])
        tr.inst_text = text
        fname = sc.get('file_name', 'inst.txt')
        path = os.path.join(d, fname)
        if not sc.get('no_file'):
            with open(path, 'w') as f:
                f.write(text)
        world.spy_start(d, _spy_sink(tr, log))
        # every run works from inside its own directory, so that nothing the
        # repository writes with a relative name lands elsewhere
        old_cwd = os.getcwd()
        os.chdir(d)
        if sc.get('relpath'):
            path = fname
        with _Alarm(wall_cap, tr):
            try:
                solver_session(
                    tr, path, sc['na'], sc['twopl'], sc.get('opts', {}),
                    sc.get('ops', [['solve', {}], ['get_results']]),
                    sc.get('backend', {}), clock, log,
                    prefer=prefer, xcheck=xcheck, byz=sc.get('byz'),
                    keep_sets=keep_sets)
            except RunTimeout:
                be = tr.backend
                if be is not None and be.busy:
                    # the wall cap fired inside the stand-in back end: a
                    # limitation of the harness, never a verdict
                    raise HarnessError('HARNESS-TIMEOUT: wall cap %ss hit '
                                       'inside the stand-in back end'
                                       % wall_cap)
                tr.calls.append({'op': 'timeout', 'ok': False,
                                 'exc': {'type': 'RunTimeout', 'site': None,
                                         'msg': 'wall cap %ss' % wall_cap,
                                         'code': None, 'tb': ''}})
                tr.timeout = True
    finally:
        world.spy_stop()
        if old_cwd is not None:
            os.chdir(old_cwd)
        if old_tmp is None:
            os.environ.pop('TMPDIR', None)
        else:
            os.environ['TMPDIR'] = old_tmp
        world.remove_run_dir(d)
    tr.clock_seconds = clock.seconds() - 1000.0
    return tr


def run_gen(sc, prefer=None, xcheck=None, wall_cap=None, keep_sets=True):
    """family 'gen': real generator under seeded RNG state, files captured,
    optionally followed by solver sessions on the generated files."""
    import numpy
    from matchingproblems import generator as gen_pkg
    from matchingproblems.generator import generator_shared
    EXEC_LOG.append(sc)
    tr = Trace()
    if wall_cap is None:
        wall_cap = WALL_CAP
    if sc.get('giant'):
        # a generator run with more than 65535 agents takes seconds, under
        # machine load much longer: its own cap, and a timeout is not judged
        wall_cap = max(wall_cap, 900.0)
    clock = world.SimClock(sc.get('clock_seed', 0))
    log = _mk_log(tr, clock)
    clock.log = log
    d = world.make_run_dir()
    old_tmp = os.environ.get('TMPDIR')
    os.environ['TMPDIR'] = d
    out_rel = sc.get('out_rel', 'out')
    outdir = os.path.join(d, out_rel)
    old_cwd = None
    # observation-only spy on the tie writer, as bound in each generator module
    patched = []
    real_csp = generator_shared.create_string_pref

    def csp_spy(pref_list, ties_indicators):
        res = real_csp(pref_list, ties_indicators)
        try:
            tr.tie_calls.append(([int(x) for x in pref_list],
                                 [int(bool(x)) for x in ties_indicators],
                                 [str(x) for x in res]))
        except Exception:
            pass
        return res
    if sc.get('spy_ties'):
        for modname in ('matchingproblems.generator.generator_shared',
                        'matchingproblems.generator.generator_ha_sm_hr',
                        'matchingproblems.generator.generator_spa'):
            mod = sys.modules.get(modname)
            if mod is not None and \
                    mod.__dict__.get('create_string_pref') is real_csp:
                mod.create_string_pref = csp_spy
                patched.append(mod)
    try:
        if sc.get('precreate_out') and sc.get('expect') != 'reject':
            os.makedirs(outdir, exist_ok=True)
            for k in range(int(sc.get('stale_files') or 0)):
                # files left over from an earlier, larger run
                with open(os.path.join(outdir, '%d.txt' % k), 'w') as f:
                    f.write('9 9\n' + ''.join(
                        '%d: 1 2 3 4 5 6 7 8 9\n' % (i + 1)
                        for i in range(60)) + 'stale tail\n' * 20)
        if sc.get('rel_out') and not sc.get('drop_o'):
            old_cwd = os.getcwd()
            os.chdir(d)
        a, b = sc['rng']
        random.seed(a)
        numpy.random.seed(b)
        import scenarios
        base_argv = list(sc['gargv']) if sc.get('gargv') is not None \
            else scenarios.gen_argv(sc['params'])
        gargv = base_argv + ['-o', outdir]
        if sc.get('rel_out'):
            gargv = base_argv + ['-o', out_rel]     # bare relative name
        if sc.get('drop_o'):
            gargv = list(base_argv)
        world.spy_start(d, _spy_sink(tr, log))
        log('api.call', ('Generator', list(base_argv)))
        err = io.StringIO()
        with _Alarm(wall_cap, tr):
            try:
                with contextlib.redirect_stderr(err):
                    gen_pkg.Generator(gargv)
                tr.calls.append({'op': 'generate', 'ok': True})
                log('api.return', ('Generator',))
            except RunTimeout:
                tr.calls.append({'op': 'generate', 'ok': False,
                                 'exc': {'type': 'RunTimeout', 'site': None,
                                         'msg': '', 'code': None, 'tb': ''}})
            except BaseException as e:
                rec = _exc_record(e)
                tr.calls.append({'op': 'generate', 'ok': False, 'exc': rec})
                log('api.raise', ('Generator', rec['type'], rec['site'],
                                  rec['code']))
        tr.stderr = err.getvalue()
        tr.gen_spy = list(tr.spy)
        # what is on disk
        tr.outdir_exists = os.path.isdir(outdir)
        tr.listing = sorted(os.listdir(outdir)) if tr.outdir_exists else []
        tr.top_listing = sorted(os.listdir(d))
        for name in tr.listing:
            p = os.path.join(outdir, name)
            if os.path.isfile(p):
                with open(p) as f:
                    tr.files[name] = f.read()
        log('files', sorted((n, world.hashlib.sha256(
            t.encode()).hexdigest()[:16]) for n, t in tr.files.items()))
        for modp in patched:
            modp.create_string_pref = real_csp
        patched = []
        # solver sessions on generated files
        for sess in sc.get('sessions', []):
            name = sess['file']
            sub = Trace()
            sub.events = tr.events      # one world, one event log
            sub.inst_text = tr.files.get(name)
            tr.solver_sessions.append(sub)
            if name not in tr.files:
                sub.calls.append({'op': 'construct', 'ok': False,
                                  'exc': {'type': 'MissingFile', 'site': None,
                                          'msg': name, 'code': None,
                                          'tb': ''}})
                continue
            with _Alarm(wall_cap, sub):
                try:
                    solver_session(
                        sub, os.path.join(outdir, name), sess['na'],
                        sess['twopl'], sess.get('opts', {}),
                        sess.get('ops', [['solve', {}], ['get_results']]),
                        sess.get('backend', {}), clock, log,
                        prefer=prefer, xcheck=xcheck, keep_sets=keep_sets)
                except RunTimeout:
                    sub.calls.append({'op': 'timeout', 'ok': False,
                                      'exc': {'type': 'RunTimeout',
                                              'site': None, 'msg': '',
                                              'code': None, 'tb': ''}})
            tr.rounds.extend(sub.rounds)
            for k, v in sub.fired.items():
                tr.fired[k] = tr.fired.get(k, 0) + v
    finally:
        for modp in patched:
            modp.create_string_pref = real_csp
        if old_cwd is not None:
            os.chdir(old_cwd)
        world.spy_stop()
        if old_tmp is None:
            os.environ.pop('TMPDIR', None)
        else:
            os.environ['TMPDIR'] = old_tmp
        world.remove_run_dir(d)
    tr.clock_seconds = clock.seconds() - 1000.0
    return tr


def run(sc, **kw):
    if sc['family'] == 'lp':
        return run_lp(sc, **kw)
    if sc['family'] == 'gen':
        return run_gen(sc, **kw)
    raise ValueError(sc['family'])
