#!/venv/bin/python
"""Confirm a sub-agent's seeded change in its scratch worktree and keep it.

  seedtool.py import C08 A     verifies in /tmp/wt-C08: demo passes on HEAD,
                               patch applies, 35 tests pass with it, demo
                               fails with it, worktree restored; then copies
                               patch, demo and meta.json to /verif/seeded/C08A/
"""
import json
import os
import re
import shutil
import subprocess
import sys

PY = '/venv/bin/python'
VERIF = os.path.dirname(os.path.dirname(os.path.abspath(__file__)))


def sh(cmd, cwd, timeout=900):
    p = subprocess.run(cmd, cwd=cwd, capture_output=True, text=True,
                       timeout=timeout, shell=isinstance(cmd, str))
    return p.returncode, (p.stdout + p.stderr)


def section(md, letter):
    """Text of MUTATION.md that belongs to change A or B (best effort)."""
    parts = re.split(r'(?m)^#+ .*$', md)
    heads = re.findall(r'(?m)^#+ .*$', md)
    out = []
    for h, body in zip(heads, parts[1:]):
        if re.search(r'\b(change|patch|mutation)?\s*%s\b' % letter, h, re.I):
            out.append(h + body)
    return '\n'.join(out)[:4000]


def import_refactor(prop, name):
    """seedtool.py refactor C05 R1: patch applies, 35 tests pass with it,
    the agent's equivalence script exits 0 with it; kept in /verif/refactors"""
    wt = '/tmp/wt-%s' % prop
    patch = os.path.join(wt, 'patch%s.diff' % name)
    equiv = os.path.join(wt, 'equiv%s.py' % name)
    rc, out = sh('git status --porcelain --untracked-files=no', wt)
    if out.strip():
        print('worktree not clean:', out)
        return 2
    rc, out = sh(['git', 'apply', os.path.basename(patch)], wt)
    if rc != 0:
        print('patch does not apply:', out)
        return 2
    try:
        rct, outt = sh([PY, '-m', 'pytest', '-q', '-p', 'no:cacheprovider'],
                       wt)
        rce, oute = (0, 'no equivalence script')
        if os.path.exists(equiv):
            rce, oute = sh([PY, os.path.basename(equiv)], wt, timeout=1800)
        rc, diffstat = sh('git diff --stat', wt)
    finally:
        sh('git checkout -- .', wt)
    tail = outt.strip().split('\n')[-1]
    print('patched: pytest -> exit %d (%s); equiv -> exit %d' % (rct, tail,
                                                                rce))
    if rct != 0:
        print('NOT KEPT (tests fail)')
        return 1
    sid = '%s%s' % (prop, name)
    dst = os.path.join(VERIF, 'refactors', sid)
    os.makedirs(dst, exist_ok=True)
    shutil.copy(patch, os.path.join(dst, 'patch.diff'))
    md = ''
    if os.path.exists(os.path.join(wt, 'REFACTOR.md')):
        md = open(os.path.join(wt, 'REFACTOR.md')).read()
    with open(os.path.join(dst, 'meta.json'), 'w') as f:
        json.dump({'id': sid, 'property': prop,
                   'author': 'independent sub-agent asked for a '
                             'behaviour-preserving refactoring',
                   'files_changed': [l.split('|')[0].strip() for l in
                                     diffstat.split('\n') if '|' in l],
                   'description': md[:6000],
                   'tests_with_patch': tail,
                   'agent_equivalence_script_exit': rce}, f, indent=1)
    print('kept as', dst)
    return 0


def main():
    if sys.argv[1] == 'refactor':
        return import_refactor(sys.argv[2], sys.argv[3])
    prop, letter = sys.argv[1], sys.argv[2]
    wt = '/tmp/wt-%s' % prop
    patch = os.path.join(wt, 'patch%s.diff' % letter)
    demo = os.path.join(wt, 'demo%s.py' % letter)
    ran = []
    rc, out = sh('git status --porcelain --untracked-files=no', wt)
    if out.strip():
        print('worktree not clean:', out)
        return 2
    rc0, out0 = sh([PY, os.path.basename(demo)], wt)
    ran.append('HEAD: %s %s -> exit %d' % (PY, os.path.basename(demo), rc0))
    rc, out = sh(['git', 'apply', os.path.basename(patch)], wt)
    if rc != 0:
        print('patch does not apply:', out)
        return 2
    try:
        rct, outt = sh([PY, '-m', 'pytest', '-q', '-p', 'no:cacheprovider'],
                       wt)
        tail = outt.strip().split('\n')[-1]
        ran.append('patched: pytest -> exit %d (%s)' % (rct, tail))
        rc1, out1 = sh([PY, os.path.basename(demo)], wt)
        ran.append('patched: %s %s -> exit %d' % (PY, os.path.basename(demo),
                                                  rc1))
        rc, diffstat = sh('git diff --stat', wt)
    finally:
        sh('git checkout -- .', wt)
    ok = rc0 == 0 and rct == 0 and rc1 == 1
    print('\n'.join(ran))
    print('demo output with patch:\n' + out1[-600:])
    if not ok:
        print('NOT CONFIRMED')
        return 1
    sid = '%s%s' % (prop, letter)
    dst = os.path.join(VERIF, 'seeded', sid)
    os.makedirs(dst, exist_ok=True)
    shutil.copy(patch, os.path.join(dst, 'patch.diff'))
    shutil.copy(demo, os.path.join(dst, 'demo.py'))
    md = ''
    if os.path.exists(os.path.join(wt, 'MUTATION.md')):
        md = open(os.path.join(wt, 'MUTATION.md')).read()
    meta = {'id': sid, 'property': prop,
            'author': 'independent sub-agent given only the property text '
                      'and a scratch worktree',
            'files_changed': [l.split('|')[0].strip()
                              for l in diffstat.split('\n') if '|' in l],
            'needs_to_manifest': section(md, letter) or md[:3000],
            'confirmed_by_me': ran,
            'demo_output_with_patch': out1[-800:]}
    with open(os.path.join(dst, 'meta.json'), 'w') as f:
        json.dump(meta, f, indent=1)
    print('CONFIRMED and kept as', dst)
    return 0


if __name__ == '__main__':
    sys.exit(main())
