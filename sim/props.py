"""Registry: how each claimed property is built, expanded, evaluated, shrunk."""
import copy
import random

import execute
import instances
import oracles
import scenarios

COMPONENTS_LP = {
    'real': ['matchingproblems.solver (Solver, Options_parser, fileIO, Model, '
             'LP_Solver, Brute_force_solver) from /repo working tree',
             'PuLP modelling layer (LpProblem, LpVariable, constraints, '
             'LpProblem.solve, assignVarsVals, assignStatus)',
             'real file system (per-run directory, observed by audit hook)',
             'real CBC in the cross-check sample and the real lane'],
    'stub': ['MILP back end: exact enumerating stand-in at '
             'COIN_CMD.actualSolve (any optimum / injected faults)',
             'wall clock: simulated datetime in matchingproblems.solver.solver']}

ASSUME_LP = [
    'instances are bounded (<= 5 students, <= 4 projects, lists <= 3) so the '
    'reference model can enumerate every assignment',
    'a correct MILP back end reports integer variables with exactly integral '
    'values and may return any optimal solution; the stand-in enumerates the '
    'optimal set exactly and is cross-checked against real CBC in every batch',
    'the reference model (sim/refmodel.py) implements the README / thesis '
    'definitions correctly; it shares no code with the repository']


class LPSpec(object):
    level = 'exploration'
    min_budget = {'quick': 250, 'thorough': 400}
    components = COMPONENTS_LP
    assumptions = ASSUME_LP
    required_probes = ()
    real_lane = {'quick': 0.03, 'thorough': 0.06}
    xrate = {'quick': 0.04, 'thorough': 0.10}
    min_crit = 0
    max_crit = 9
    keep_stab = False

    def __init__(self, prop, rule, runs, required_probes=()):
        self.prop = prop
        self.rule = rule
        self.runs = runs
        self.required_probes = required_probes
        self.oracle = oracles.LP_ORACLES[prop]
        self.builder = scenarios.BUILDERS[prop]

    def build(self, rng, tier):
        sc = self.builder(rng, tier)
        sc['tier'] = tier
        if not sc['backend'].get('faults') and \
                rng.random() < self.real_lane[tier]:
            sc['backend']['policy'] = 'real'
        return sc

    def expand(self, sc, rng, tier):
        return [sc]

    def evaluate(self, sc, xstats=None, xrng=None):
        ctx = oracles.LPContext(sc)
        xcheck = None
        if xstats is not None and sc['backend'].get('policy') != 'real':
            xcheck = {'rate': self.xrate.get(sc.get('tier', 'quick'), 0.04),
                      'rng': random.Random(sc['backend'].get('choice_seed',
                                                             0) ^ 0x5bd1e995),
                      'stats': xstats}
        tr = execute.run_lp(sc, prefer=ctx.prefer, xcheck=xcheck)
        v = self.oracle(ctx, tr)
        return tr, v

    def shrink(self, sc):
        for c in shrink_lp(sc, self.min_crit, self.keep_stab):
            yield c


def _clamp_opts(sc):
    mr = scenarios.maxrank_of(sc['inst'])
    for c in sc['opts'].get('criteria', []):
        if c['name'] == 'gen' and c.get('extra'):
            c['extra'] = [max(1, min(c['extra'][0], max(1, mr)))]
    if not sc['inst']['twopl']:
        sc['opts']['stab'] = False
    return sc


def shrink_lp(sc, min_crit=0, keep_stab=False):
    opts = sc.get('opts', {})
    crit = opts.get('criteria', [])
    # options first (cheap, big effect)
    if len(crit) > min_crit:
        for k in range(len(crit)):
            c = copy.deepcopy(sc)
            del c['opts']['criteria'][k]
            yield c
    if opts.get('pc'):
        c = copy.deepcopy(sc)
        c['opts']['pc'] = False
        yield c
    if opts.get('stab') and not keep_stab:
        c = copy.deepcopy(sc)
        c['opts']['stab'] = False
        yield c
    faults = sc.get('backend', {}).get('faults') or []
    for k in range(len(faults)):
        c = copy.deepcopy(sc)
        del c['backend']['faults'][k]
        yield c
    for k, f in enumerate(faults):
        if f.get('persist'):
            c = copy.deepcopy(sc)
            c['backend']['faults'][k]['persist'] = False
            yield c
        if f.get('values', 'zeros') != 'zeros':
            c = copy.deepcopy(sc)
            c['backend']['faults'][k]['values'] = 'zeros'
            yield c
    ops = sc.get('ops', [])
    if len(ops) > 2:
        for k in range(len(ops) - 1, 0, -1):
            c = copy.deepcopy(sc)
            del c['ops'][k]
            if any(o[0] != 'solve' and o[0] != 'idle' for o in c['ops']):
                yield c
    if 'inst' in sc:
        for inst in instances.shrink_candidates(sc['inst']):
            c = copy.deepcopy(sc)
            c['inst'] = inst
            yield _clamp_opts(c)
    for k, cr in enumerate(crit):
        if cr.get('extra'):
            c = copy.deepcopy(sc)
            c['opts']['criteria'][k]['extra'] = cr['extra'][:-1]
            yield c
    if sc.get('backend', {}).get('policy') not in ('first', 'real'):
        c = copy.deepcopy(sc)
        c['backend']['policy'] = 'first'
        yield c
    if opts.get('flag_order'):
        c = copy.deepcopy(sc)
        c['opts']['flag_order'] = None
        yield c
    want = list(range(1, len(crit) + 1))
    order = sorted(range(len(crit)), key=lambda k: crit[k]['pos'])
    if [crit[k]['pos'] for k in order] != want:
        c = copy.deepcopy(sc)
        for rank, k in enumerate(order):
            c['opts']['criteria'][k]['pos'] = rank + 1
        yield c


class C03Spec(LPSpec):
    min_crit = 1


class C04Spec(LPSpec):
    min_crit = 2


class C05Spec(LPSpec):
    keep_stab = True


PROPS = {}

PROPS['C01'] = LPSpec(
    'C01',
    'seeded S-LP scenarios (instance x option set x tie-break policy); '
    'non-trivial = at least one acceptable-project assignment of the instance '
    'is invalid (some quota/closure constraint binds); distinct = distinct '
    'event-log digests among those',
    {'quick': 30000, 'thorough': 1000000})
PROPS['C02'] = LPSpec(
    'C02',
    'seeded S-LP scenarios over every subset/order/argument vector of the '
    'nine criteria, -pc, -stab; every run is a verdict comparison with the '
    'reference feasible set, so every run counts as non-trivial; distinct = '
    'distinct event-log digests',
    {'quick': 30000, 'thorough': 1000000})
PROPS['C03'] = C03Spec(
    'C03',
    'seeded S-LP scenarios with exactly one criterion; non-trivial = the '
    'criterion takes at least two distinct values over the feasible '
    'matchings; distinct = distinct event-log digests among those',
    {'quick': 30000, 'thorough': 1000000})
PROPS['C04'] = C04Spec(
    'C04',
    'seeded S-LP scenarios with 2..4 criteria, gapped positions, shuffled '
    'flags; non-trivial = reversing the order or dropping the freeze of some '
    'criterion changes the lexicographic optimum; distinct = distinct '
    'event-log digests among those',
    {'quick': 30000, 'thorough': 1000000})
PROPS['C05'] = C05Spec(
    'C05',
    'seeded two-sided S-LP scenarios with -stab and criteria in {none, '
    'maxsize, minsize}; non-trivial = the stable set is a proper subset of '
    'the valid set; distinct = distinct event-log digests among those',
    {'quick': 30000, 'thorough': 1000000})
PROPS['C11'] = LPSpec(
    'C11',
    'seeded S-LP scenarios, half without criteria under the uniform '
    'tie-break (every valid matching is optimal); non-trivial = printed '
    'matching non-empty; distinct = distinct event-log digests among those',
    {'quick': 30000, 'thorough': 1000000})
