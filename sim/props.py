"""Registry: how each claimed property is built, expanded, evaluated, shrunk."""
import copy
import random

import execute
import instances
import oracles
import scenarios

COMPONENTS_LP = {
    'real': ['matchingproblems.solver (Solver, Options_parser, fileIO, Model, '
             'LP_Solver, Brute_force_solver) from /repo working tree',
             'PuLP modelling layer (LpProblem, LpVariable, constraints, '
             'LpProblem.solve, assignVarsVals, assignStatus)',
             'real file system (per-run directory, observed by audit hook)',
             'real CBC in the cross-check sample and the real lane'],
    'stub': ['MILP back end: exact enumerating stand-in at '
             'COIN_CMD.actualSolve (any optimum / injected faults)',
             'wall clock: simulated datetime in matchingproblems.solver.solver']}

ASSUME_LP = [
    'instances are bounded so that the reference model can enumerate every '
    'assignment (at most 4096: up to 5 students x 4 projects with lists <= 3, '
    'or up to 12 agents on a side with lists <= 1-2); the real lane at scale '
    '(10-24 students, about 1 % of the runs) uses only oracles that need no '
    'enumeration',
    'real CBC 2.10.3 occasionally reports Optimal with a point that violates '
    'the program (DESIGN.md note N2): whenever real CBC is consulted its '
    'answer is validated against the program; such runs are counted under '
    'faults_injected as real-cbc-infeasible-answer and not judged',
    'a correct MILP back end reports integer variables with exactly integral '
    'values and may return any optimal solution; the stand-in enumerates the '
    'optimal set exactly and is cross-checked against real CBC in every batch',
    'the reference model (sim/refmodel.py) implements the README / thesis '
    'definitions correctly; it shares no code with the repository']


def backend_fault(tr):
    """The real back end broke its own contract in this run (reported
    Optimal with a point that violates the program)."""
    for r in tr.rounds:
        if r.get('backend_fault'):
            return r['backend_fault']
    return None


class LPSpec(object):
    level = 'exploration'
    min_budget = {'quick': 250, 'thorough': 400}
    components = COMPONENTS_LP
    assumptions = ASSUME_LP
    required_probes = ()
    real_lane = {'quick': 0.03, 'thorough': 0.06}
    xrate = {'quick': 0.04, 'thorough': 0.10}
    min_crit = 0
    max_crit = 9
    keep_stab = False

    def __init__(self, prop, rule, runs, required_probes=()):
        self.prop = prop
        self.rule = rule
        self.runs = runs
        self.required_probes = required_probes
        self.oracle = oracles.LP_ORACLES.get(prop)
        self.builder = scenarios.BUILDERS[prop]

    big_lane = {'quick': 0.0, 'thorough': 0.0}

    def build(self, rng, tier):
        if rng.random() < self.big_lane[tier]:
            return self.build_big(rng, tier)
        sc = self.builder(rng, tier)
        sc['tier'] = tier
        if not sc['backend'].get('faults') and \
                not sc['backend'].get('coherent_tl') and \
                rng.random() < self.real_lane[tier]:
            sc['backend']['policy'] = 'real'
            if rng.random() < 0.5:
                sc['backend']['real_tiebreak_seed'] = rng.randrange(
                    1, 2 ** 31)
        return sc

    def build_big(self, rng, tier):
        """real lane at scale: 10-24 students, real CBC, no enumeration"""
        sw = {'shape': 'boundary' if rng.random() < 0.2 else 'big',
              'lowq': rng.random() < 0.15,
              'zero_cap': rng.random() < 0.15}
        if self.prop == 'C05':
            sw['twopl'] = True
        inst = instances.gen_instance(rng, sw, thorough=(tier == 'thorough'))
        mr = scenarios.maxrank_of(inst)
        if self.prop == 'C03':
            name = rng.choice(scenarios.CRIT)
            crit = [{'name': name, 'pos': rng.randint(1, 9),
                     'extra': scenarios.gen_extra(rng, name, mr)}]
        elif self.prop == 'C04':
            crit = scenarios.gen_criteria(rng, rng.choice([2, 2, 3]), mr)
        elif self.prop == 'C05':
            crit = scenarios.gen_criteria(rng, rng.choice([0, 1, 1]), mr,
                                          pool=['maxsize', 'minsize'])
        else:
            crit = scenarios.gen_criteria(rng, rng.choice([0, 1, 2]), mr)
        opts = {'criteria': crit, 'pc': rng.random() < 0.3,
                'stab': inst['twopl'] and (self.prop == 'C05' or
                                           rng.random() < 0.3),
                'flag_order': None}
        sc = scenarios.lp_base(rng, inst, opts, policy='real')
        if rng.random() < 0.7:
            sc['backend']['real_tiebreak_seed'] = rng.randrange(1, 2 ** 31)
        sc['big'] = True
        sc['tier'] = tier
        return sc

    def expand(self, sc, rng, tier):
        return [sc]

    def evaluate_big(self, sc):
        ctx = oracles.LPContext(sc)
        prefix = None
        if self.prop == 'C04':
            prefix = []
            crit = sorted(sc['opts']['criteria'], key=lambda c: c['pos'])
            for j in range(1, len(crit)):
                sub = copy.deepcopy(sc)
                sub['opts']['criteria'] = crit[:j]
                trp = execute.run_lp(sub, keep_sets=False)
                kind, r = oracles.outcome(trp)
                prefix.append(r['matching'] if kind == 'optimal' and
                              not backend_fault(trp) else None)
        tr = execute.run_lp(sc, keep_sets=False)
        if backend_fault(tr):
            return tr, {'violations': [], 'probes': {'big-lane': 1},
                        'nontrivial': False,
                        'skipped': 'real-backend-fault:' + backend_fault(tr)}
        return tr, oracles.big_oracle(self.prop, ctx, tr, prefix)

    def evaluate(self, sc, xstats=None, xrng=None):
        if sc.get('big'):
            return self.evaluate_big(sc)
        ctx = oracles.LPContext(sc)
        xcheck = None
        # (no cross-check under value noise: the bound the repository derives
        # from a value like 1.0000001 sits exactly at CBC's feasibility
        # tolerance, where an exact enumerator and CBC legitimately differ)
        if xstats is not None and sc['backend'].get('policy') != 'real' \
                and not sc['backend'].get('value_noise'):
            xcheck = {'rate': self.xrate.get(sc.get('tier', 'quick'), 0.04),
                      'rng': random.Random(sc['backend'].get('choice_seed',
                                                             0) ^ 0x5bd1e995),
                      'stats': xstats}
        tr = execute.run_lp(sc, prefer=ctx.prefer, xcheck=xcheck)
        if backend_fault(tr):
            return tr, {'violations': [], 'probes': {}, 'nontrivial': False,
                        'skipped': 'real-backend-fault:' + backend_fault(tr)}
        v = self.oracle(ctx, tr)
        return tr, v

    def shrink(self, sc):
        for c in shrink_lp(sc, self.min_crit, self.keep_stab):
            yield c


def _clamp_opts(sc):
    mr = scenarios.maxrank_of(sc['inst'])
    for c in sc['opts'].get('criteria', []):
        if c['name'] == 'gen' and c.get('extra'):
            c['extra'] = [max(1, min(c['extra'][0], max(1, mr)))]
    if not sc['inst']['twopl']:
        sc['opts']['stab'] = False
    return sc


def shrink_lp(sc, min_crit=0, keep_stab=False):
    opts = sc.get('opts', {})
    crit = opts.get('criteria', [])
    # options first (cheap, big effect)
    if len(crit) > min_crit:
        for k in range(len(crit)):
            c = copy.deepcopy(sc)
            del c['opts']['criteria'][k]
            yield c
    if opts.get('pc'):
        c = copy.deepcopy(sc)
        c['opts']['pc'] = False
        yield c
    if opts.get('stab') and not keep_stab:
        c = copy.deepcopy(sc)
        c['opts']['stab'] = False
        yield c
    faults = sc.get('backend', {}).get('faults') or []
    for k in range(len(faults)):
        c = copy.deepcopy(sc)
        del c['backend']['faults'][k]
        yield c
    for k, f in enumerate(faults):
        if f.get('persist'):
            c = copy.deepcopy(sc)
            c['backend']['faults'][k]['persist'] = False
            yield c
        if f.get('values', 'zeros') != 'zeros':
            c = copy.deepcopy(sc)
            c['backend']['faults'][k]['values'] = 'zeros'
            yield c
    ops = sc.get('ops', [])
    if len(ops) > 2:
        for k in range(len(ops) - 1, 0, -1):
            c = copy.deepcopy(sc)
            del c['ops'][k]
            if any(o[0] != 'solve' and o[0] != 'idle' for o in c['ops']):
                yield c
    if 'inst' in sc:
        for inst in instances.shrink_candidates(sc['inst']):
            c = copy.deepcopy(sc)
            c['inst'] = inst
            yield _clamp_opts(c)
    for k, cr in enumerate(crit):
        if cr.get('extra'):
            c = copy.deepcopy(sc)
            c['opts']['criteria'][k]['extra'] = cr['extra'][:-1]
            yield c
    if sc.get('backend', {}).get('policy') not in ('first', 'real'):
        c = copy.deepcopy(sc)
        c['backend']['policy'] = 'first'
        yield c
    if opts.get('flag_order'):
        c = copy.deepcopy(sc)
        c['opts']['flag_order'] = None
        yield c
    if opts.get('alias_seed'):
        c = copy.deepcopy(sc)
        c['opts']['alias_seed'] = None
        yield c
    want = list(range(1, len(crit) + 1))
    order = sorted(range(len(crit)), key=lambda k: crit[k]['pos'])
    if [crit[k]['pos'] for k in order] != want:
        c = copy.deepcopy(sc)
        for rank, k in enumerate(order):
            c['opts']['criteria'][k]['pos'] = rank + 1
        yield c


PROPS = {}

class BigLaneSpec(LPSpec):
    big_lane = {'quick': 0.006, 'thorough': 0.02}


class C03Spec(BigLaneSpec):
    min_crit = 1


class C04Spec(BigLaneSpec):
    min_crit = 2


class C05Spec(BigLaneSpec):
    keep_stab = True


PROPS['C01'] = BigLaneSpec(
    'C01',
    'seeded S-LP scenarios (instance x option set x tie-break policy); '
    'non-trivial = at least one acceptable-project assignment of the instance '
    'is invalid (some quota/closure constraint binds); distinct = distinct '
    'event-log digests among those',
    {'quick': 30000, 'thorough': 300000})
PROPS['C02'] = LPSpec(
    'C02',
    'seeded S-LP scenarios over every subset/order/argument vector of the '
    'nine criteria, -pc, -stab; every run is a verdict comparison with the '
    'reference feasible set, so every run counts as non-trivial; distinct = '
    'distinct event-log digests',
    {'quick': 30000, 'thorough': 300000})
PROPS['C03'] = C03Spec(
    'C03',
    'seeded S-LP scenarios with exactly one criterion; non-trivial = the '
    'criterion takes at least two distinct values over the feasible '
    'matchings; distinct = distinct event-log digests among those',
    {'quick': 30000, 'thorough': 300000})
PROPS['C04'] = C04Spec(
    'C04',
    'seeded S-LP scenarios with 2..4 criteria, gapped positions, shuffled '
    'flags; non-trivial = reversing the order or dropping the freeze of some '
    'criterion changes the lexicographic optimum; distinct = distinct '
    'event-log digests among those',
    {'quick': 30000, 'thorough': 300000})
PROPS['C05'] = C05Spec(
    'C05',
    'seeded two-sided S-LP scenarios with -stab and criteria in {none, '
    'maxsize, minsize}; non-trivial = the stable set is a proper subset of '
    'the valid set; distinct = distinct event-log digests among those',
    {'quick': 30000, 'thorough': 300000})
PROPS['C11'] = BigLaneSpec(
    'C11',
    'seeded S-LP scenarios, half without criteria under the uniform '
    'tie-break (every valid matching is optimal); non-trivial = printed '
    'matching non-empty; distinct = distinct event-log digests among those',
    {'quick': 30000, 'thorough': 300000})


# ---------------------------------------------------------------------------
# C14: fault enumeration
# ---------------------------------------------------------------------------
class C14Spec(LPSpec):
    level = 'fault_enumeration'
    real_lane = {'quick': 0.0, 'thorough': 0.0}
    xrate = {'quick': 0.01, 'thorough': 0.02}
    components = dict(COMPONENTS_LP)

    def build(self, rng, tier):
        sc = self.builder(rng, tier)
        sc['tier'] = tier
        return sc

    def expand(self, sc, rng, tier):
        # fault-free dry run: number of rounds K
        dry = copy.deepcopy(sc)
        dry['backend']['durations'] = [1e-4] * 40
        tr = execute.run_lp(dry, keep_sets=False)
        K = len([r for r in tr.rounds if r['solve_index'] == 1])
        out = []
        base = copy.deepcopy(sc)
        base['backend']['durations'] = scenarios.clock_plan(
            rng, sc.get('limit'), K)
        base['K'] = K
        out.append(base)           # fault-free under a seeded clock plan
        if K == 0 or K > 10:
            return out
        for plan in scenarios.c14_plans(rng, K, sc.get('limit'), tier):
            c = copy.deepcopy(sc)
            c['backend']['faults'] = plan
            c['backend']['durations'] = scenarios.clock_plan(
                rng, sc.get('limit'), K)
            c['backend']['choice_seed'] = rng.randrange(2 ** 31)
            c['K'] = K
            out.append(c)
        return out


PROPS['C14'] = C14Spec(
    'C14',
    'per seeded scenario (instance x criteria x time limit) a fault-free run '
    'fixes the number K of back-end solves; then every single fault (round '
    '1..K x {Infeasible, Unbounded, Undefined, Not Solved, time-limit stop '
    'with incumbent, without incumbent, crash of the solver process} x '
    '{transient, persistent} x value '
    'mode) is injected, plus every pair of faults when K = 2 (K <= 3 in '
    'the thorough tier) and a seeded sample of pairs otherwise, each under a '
    'seeded clock plan; non-trivial = some round did not end in a proven '
    'optimum; distinct = distinct event-log digests among those',
    {'quick': 1200, 'thorough': 10000},
    required_probes=('cut-short:tl-incumbent', 'cut-short:tl-no-incumbent',
                     'cut-short:status:Not Solved', 'cut-after-first-round',
                     'cut-short:crash'))
PROPS['C14'].oracle = oracles.c14


# ---------------------------------------------------------------------------
# C16
# ---------------------------------------------------------------------------
class C16Spec(LPSpec):
    real_lane = {'quick': 0.0, 'thorough': 0.0}

    def build(self, rng, tier):
        sc = self.builder(rng, tier)
        sc['tier'] = tier
        return sc

    def expand(self, sc, rng, tier):
        if sc.get('c16') != 'fault-prefix':
            return [sc]
        dry = copy.deepcopy(sc)
        tr = execute.run_lp(dry, keep_sets=False)
        K = len([r for r in tr.rounds if r['solve_index'] == 1])
        if K == 0:
            return [sc]
        out = []
        for _ in range(3):
            c = copy.deepcopy(sc)
            kinds = list(scenarios.STATUS_FAULTS)
            if sc.get('limit') is not None and sc['limit'] <= 1e9:
                kinds += ['tl-incumbent', 'tl-incumbent', 'tl-no-incumbent']
            c['backend']['faults'] = [{
                'round': rng.randint(1, K),
                'kind': rng.choice(kinds),
                'persist': rng.random() < 0.5,
                'values': rng.choice(scenarios.VALUE_MODES)}]
            out.append(c)
        return out

    def evaluate(self, sc, xstats=None, xrng=None):
        if sc.get('c16') == 'refuse':
            tr = execute.run_lp(sc)
            return tr, oracles.c16_refuse(sc, tr)
        ctx = oracles.LPContext(sc)
        tr = execute.run_lp(sc, prefer=ctx.prefer)
        if backend_fault(tr):
            return tr, {'violations': [], 'probes': {}, 'nontrivial': False,
                        'skipped': 'real-backend-fault'}
        return tr, oracles.c16_order(ctx, tr)

    def shrink(self, sc):
        if sc.get('c16') == 'refuse':
            for c in shrink_lp(sc, 1, True):
                yield c
            if sc.get('no_file'):
                c = copy.deepcopy(sc)
                c['no_file'] = False
                yield c
            return
        for c in shrink_lp(sc, 1, False):
            yield c


PROPS['C16'] = C16Spec(
    'C16',
    'seeded position assignments x flag permutations x extra-argument vectors '
    'on a small instance: (a) valid ones: optimisation_options and the '
    'reported "- optimisation:" lines follow position order and the result is '
    'the lexicographic optimum in that order; (b) invalid ones (position out '
    'of 1..9, shared position, -stab without -twopl; instance file present or '
    'missing): SystemExit(2) and no open of the instance in the audit-hook '
    'spy; (c) a status fault at a seeded round: reported prefix; non-trivial '
    '= flags given out of position order, or a refusal; distinct = distinct '
    'event-log digests among those',
    {'quick': 25000, 'thorough': 250000},
    required_probes=('refuse:pos-out-of-range', 'refuse:duplicate-pos',
                     'refuse:stab-without-twopl', 'refuse-with-missing-file',
                     'prefix-under-injected-fault', 'gapped'))


# ---------------------------------------------------------------------------
# C18
# ---------------------------------------------------------------------------
class C18Spec(LPSpec):
    real_lane = {'quick': 0.02, 'thorough': 0.03}
    big_lane = {'quick': 0.004, 'thorough': 0.01}

    def build_big(self, rng, tier):
        sc = LPSpec.build_big(self, rng, tier)
        sc['ops'] = [['solve', {}], ['get_results'], ['solve', {}],
                     ['get_results'], ['get_debug'], ['get_debug']]
        return sc

    def evaluate_big(self, sc):
        """re-solve at scale on real CBC: no exception, same status, same
        criterion values, valid matching (no enumeration needed)"""
        import refmodel as rm
        ctx = oracles.LPContext(sc)
        tr = execute.run_lp(sc, keep_sets=False)
        res = {'violations': [], 'probes': {'big-lane': 1},
               'nontrivial': True, 'skipped': None}
        if backend_fault(tr):
            res['skipped'] = 'real-backend-fault:' + backend_fault(tr)
            res['nontrivial'] = False
            return tr, res
        exc = oracles.first_exception(tr)
        if exc is not None:
            e = exc['exc']
            if e['type'] == 'RunTimeout':
                res['skipped'] = 'harness-timeout'
                return tr, res
            res['violations'].append(
                ('exception:' + e['type'], e['site'] or exc['op'],
                 {'msg': e['msg'], 'op': exc['op'], 'big': True,
                  'history': [c['op'] for c in tr.calls]}))
            return tr, res
        seen = []
        for c in tr.calls:
            if c['op'] == 'get_results':
                r = oracles.parse_results(c['text'])
                kv = None
                if r['status'] == 'Optimal' and r['matching'] is not None \
                        and rm.acceptable(ctx.I, r['matching']):
                    m = rm.measures(ctx.I, r['matching'])
                    kv = [rm.key(ctx.I, m, n, e) for n, e in ctx.crit]
                    if not rm.valid(ctx.I, r['matching'], ctx.pc):
                        res['violations'].append(
                            ('resolve-invalid-matching', 'get_results',
                             {'epoch': c['solve_index'], 'big': True}))
                seen.append((r['status'], kv))
        if len(seen) == 2 and seen[0] != seen[1]:
            res['violations'].append(
                ('resolve-changes-status' if seen[0][0] != seen[1][0]
                 else 'resolve-changes-criterion-value', 'get_results',
                 {'first': seen[0], 'second': seen[1], 'big': True}))
        dbg = [c['text'] for c in tr.calls if c['op'] == 'get_debug']
        if len(dbg) == 2 and dbg[0] != dbg[1]:
            res['violations'].append(
                ('getter-not-idempotent', 'get_debug', {'big': True}))
        return tr, res

    def shrink(self, sc):
        ops = sc['ops']
        for k in range(len(ops) - 1, 0, -1):
            c = copy.deepcopy(sc)
            del c['ops'][k]
            yield c
        for c in shrink_lp(sc, 0, False):
            yield c
        if sc['opts'].get('bf'):
            c = copy.deepcopy(sc)
            c['opts']['bf'] = False
            yield c


PROPS['C18'] = C18Spec(
    'C18',
    'seeded API histories of length 2..12 over {solve, get_results, '
    'get_results_short, get_results_long, get_debug, idle gap} starting with '
    'solve, LP and brute-force mode, back end drawing a fresh optimal '
    'tie-break on every solve; one history in four gives its solves '
    'different limits (some binding) and lets a later solve crash; '
    'non-trivial = history with a second solve or '
    'a repeated getter; distinct = distinct event-log digests among those',
    {'quick': 20000, 'thorough': 200000},
    required_probes=('different-matchings-across-solves',
                     'repeated-getter-calls', 'bf',
                     'full-solve-after-cut-short-solve',
                     'full-solve-after-crashed-solve'))
PROPS['C18'].oracle = oracles.c18


# ---------------------------------------------------------------------------
# C06
# ---------------------------------------------------------------------------
class C06Spec(LPSpec):
    keep_stab = True
    real_lane = {'quick': 0.0, 'thorough': 0.0}
    xrate = {'quick': 0.0, 'thorough': 0.0}

    def build(self, rng, tier):
        sc = self.builder(rng, tier)
        sc['tier'] = tier
        return sc

    def shrink(self, sc):
        byz = sc.get('byz')
        direct = [k for k, o in enumerate(sc['ops'])
                  if o[0] == 'check_stability']
        if direct:
            # direct calls only; then one direct call less
            if len(direct) < len(sc['ops']):
                c = copy.deepcopy(sc)
                c['ops'] = [o for o in c['ops'] if o[0] == 'check_stability']
                yield c
            for k in direct:
                c = copy.deepcopy(sc)
                del c['ops'][k]
                yield c
        if byz and len(byz) > 1:
            for k in range(len(byz)):
                c = copy.deepcopy(sc)
                c['byz'] = [byz[k]]
                c['ops'] = [['solve', {}], ['get_results']]
                yield c
        if byz:
            # instance shrinking would invalidate the recorded assignments:
            # shrink quotas/ties only through candidates that keep them legal
            for inst in instances.shrink_candidates(sc['inst']):
                if len(inst['students']) != len(sc['inst']['students']) or \
                        len(inst['projects']) != len(sc['inst']['projects']):
                    continue
                c = copy.deepcopy(sc)
                c['inst'] = inst
                if _byz_legal(c):
                    yield c
            if sc['opts'].get('pc'):
                c = copy.deepcopy(sc)
                c['opts']['pc'] = False
                yield c
            return
        for c in shrink_lp(sc, 0, True):
            yield c


def _byz_legal(sc):
    import refmodel as rm
    try:
        I = rm.parse(instances.render(sc['inst']), sc['na'], True)
    except Exception:
        return False
    for M in list(sc['byz']) + [o[1]['assignment'] for o in sc['ops']
                                if o[0] == 'check_stability']:
        M = tuple(M)
        if not rm.acceptable(I, M):
            return False
        pc, lc = rm.counts(I, M)
        if any(pc[j] > I.puq[j] for j in range(I.n2)) or \
                any(lc[k] > I.luq[k] for k in range(I.n3)):
            return False
    return True


PROPS['C06'] = C06Spec(
    'C06',
    'seeded two-sided instances under -stab with a Byzantine back end that '
    'answers each solve with a seeded assignment respecting acceptability and '
    'project/lecturer upper quotas only (half stable, half unstable by the '
    'reference), 2..8 assignments per loaded instance through repeated '
    'solve(), plus direct calls of Model.check_stability between solves '
    'and before the first; one run in four is a fault-free -stab run '
    '(corollary); '
    'non-trivial = run containing at least one assignment with a blocking '
    'pair; distinct = distinct event-log digests among those',
    {'quick': 20000, 'thorough': 200000},
    required_probes=('blocking:3a', 'blocking:3b-in', 'blocking:3b-pref',
                     'blocking:3c', 'full-and-empty-agent',
                     'fault-free-stab', 'direct-check_stability-call'))
PROPS['C06'].oracle = oracles.c06


# ---------------------------------------------------------------------------
# generator family
# ---------------------------------------------------------------------------
import oracles_gen   # noqa: E402

COMPONENTS_GEN = {
    'real': ['matchingproblems.generator (Instance_options_parser, '
             'Generator_ha_sm_hr, Generator_spa, generator_shared) from /repo '
             'working tree', 'random / numpy.random (real RNG code, '
             'simulator-chosen state)', 'real file system (per-run directory '
             'observed by audit hook)',
             'matchingproblems.solver on the generated files (C09, C13)'],
    'stub': ['MILP back end (C09 LP sessions): enumerating stand-in',
             'wall clock: simulated']}
ASSUME_GEN = [
    'the reference parser (sim/refmodel.py) implements the documented file '
    'grammar; it shares no code with the repository',
    'generator runs are made reproducible by seeding random and numpy.random '
    'immediately before Generator(args); the two seeds are part of the '
    'scenario']


def shrink_params(p, keep=()):
    """Simpler legal parameter sets."""
    def ok(q):
        mp = q['mp']
        n2 = q.get('n2', q['n1']) if mp != 'sm' else q['n1']
        if q['pmax'] > n2 or q['pmin'] > q['pmax'] or q['pmin'] < 1:
            return False
        if mp != 'sm' and (q['uq'] < n2 or (q.get('lq') or 0) > q['uq']):
            return False
        if mp == 'spa':
            if (q.get('lt') or 0) > q['luq'] or \
                    (q.get('llq') or 0) > (q.get('lt') or 0):
                return False
        return q['n1'] >= 1 and n2 >= 1 and q.get('numinst', 1) >= 1
    cands = []
    if p.get('numinst', 1) > 1:
        cands.append(dict(p, numinst=1))
        cands.append(dict(p, numinst=p['numinst'] // 2))
    for k in ('t1', 't2', 'skew', 'lq', 'llq', 'lt', 'flag_order',
              'alias_seed'):
        if p.get(k) is not None and k not in keep:
            cands.append(dict(p, **{k: None}))
    for k in ('n1', 'n2', 'n3', 'pmax', 'pmin', 'uq', 'luq'):
        if p.get(k) is not None and p[k] > 1 and k not in keep:
            q = dict(p, **{k: p[k] - 1})
            if k == 'n2' and q.get('uq') is not None and 'uq' not in keep:
                pass
            cands.append(q)
    for q in cands:
        if ok(q):
            yield q


class GenSpec(object):
    level = 'exploration'
    min_budget = {'quick': 200, 'thorough': 300}
    components = COMPONENTS_GEN
    assumptions = ASSUME_GEN
    required_probes = ()

    def __init__(self, prop, rule, runs, oracle, required_probes=()):
        self.prop = prop
        self.rule = rule
        self.runs = runs
        self.oracle = oracle
        self.builder = scenarios.BUILDERS[prop]
        self.required_probes = required_probes

    def build(self, rng, tier):
        sc = self.builder(rng, tier)
        sc['tier'] = tier
        return sc

    def expand(self, sc, rng, tier):
        return [sc]

    def evaluate(self, sc, xstats=None, xrng=None):
        xcheck = None
        if xstats is not None and sc.get('sessions'):
            xcheck = {'rate': 0.03,
                      'rng': random.Random(sc['rng'][0] ^ 0x5bd1e995),
                      'stats': xstats}
        tr = execute.run_gen(sc, xcheck=xcheck)
        return tr, self.oracle(sc, tr)

    def shrink(self, sc):
        if sc.get('reach'):
            return
        sess = sc.get('sessions') or []
        if len(sess) > 1:
            for k in range(len(sess)):
                c = copy.deepcopy(sc)
                c['sessions'] = [sess[k]]
                yield c
        for k, s in enumerate(sess):
            o = s.get('opts', {})
            for j in range(len(o.get('criteria', []))):
                c = copy.deepcopy(sc)
                del c['sessions'][k]['opts']['criteria'][j]
                yield c
            for flag in ('pc', 'stab'):
                if o.get(flag):
                    c = copy.deepcopy(sc)
                    c['sessions'][k]['opts'][flag] = False
                    yield c
            if s.get('backend', {}).get('policy') not in (None, 'first'):
                c = copy.deepcopy(sc)
                c['sessions'][k]['backend']['policy'] = 'first'
                yield c
        nfiles = sc['params'].get('numinst', 1)
        for q in shrink_params(sc['params'], keep=sc.get('keep', ())):
            c = copy.deepcopy(sc)
            c['params'] = q
            if q.get('numinst', 1) < nfiles:
                c['sessions'] = [s for s in c['sessions']
                                 if int(s['file'].split('.')[0]) <
                                 q['numinst']]
            if not q.get('twopl'):
                for s in c['sessions']:
                    s['twopl'] = False
            yield c


class C15Spec(GenSpec):
    def expand(self, sc, rng, tier):
        out = [sc]
        perts = scenarios.perturbations(sc['params'])
        if tier == 'quick':
            # all labels are covered over the batch; per scenario a seeded
            # third of them keeps the quick tier short
            perts = [x for x in perts if rng.random() < 0.34]
        for label, q, extra in perts:
            c = copy.deepcopy(sc)
            c['params'] = q
            c['expect'] = 'reject'
            c['perturbation'] = label
            c.update(extra)
            out.append(c)
        return out

    def shrink(self, sc):
        if sc.get('expect') == 'accept':
            for q in shrink_params(sc['params']):
                c = copy.deepcopy(sc)
                c['params'] = q
                yield c
            return
        p = sc['params']
        for k in ('t1', 't2', 'skew', 'flag_order', 'lq', 'llq', 'lt'):
            if p.get(k) is not None and k not in sc['perturbation']:
                c = copy.deepcopy(sc)
                c['params'][k] = None
                yield c
        if p.get('numinst') and p['numinst'] > 1 and \
                'numinst' not in sc['perturbation']:
            c = copy.deepcopy(sc)
            c['params']['numinst'] = 1
            yield c


PROPS['C08'] = GenSpec(
    'C08',
    'seeded accepted generator argument vectors (all four types, counts, '
    'pmin/pmax, quota sums, tie probabilities incl. 0 and 1, skew, one/two '
    'sided, numinst 1..3) x two RNG seeds; one run in twelve is a '
    'reachability run (>= 360 lists of one (pmin,pmax) class: every length '
    'must occur); every run is checked in full, so every run is non-trivial; '
    'distinct = distinct event-log digests',
    {'quick': 20000, 'thorough': 200000}, oracles_gen.c08,
    required_probes=('mp:ha', 'mp:sm', 'mp:hr', 'mp:spa', 't1-extreme',
                     't2-extreme', 'reachability-run', 'one-sided',
                     'more-lecturers-than-projects'))
PROPS['C12'] = GenSpec(
    'C12',
    'seeded two-sided sm/hr/spa generator runs x two RNG seeds; non-trivial = '
    'some second-side agent is ranked by at least two first-side agents; '
    'distinct = distinct event-log digests among those',
    {'quick': 30000, 'thorough': 300000}, oracles_gen.c12,
    required_probes=('student-ranks-several-projects-of-a-lecturer',
                     'second-side-agent-nobody-ranks',
                     'more-lecturers-than-projects'))
PROPS['C13'] = GenSpec(
    'C13',
    'seeded generator runs with tie probabilities in {.3,.5,.7,1} and lists '
    'up to length 6; the writer\'s (list, decisions) -> strings calls are '
    'observed, the same files are loaded by the real solver and the ranks '
    'compared on both sides; coverage = distinct (length, decision vector) '
    'pairs hit out of the 127 with length <= 6 (seeded search with a '
    'coverage measure, not exhaustive enumeration); non-trivial = a list of '
    'length >= 2 made the round trip',
    {'quick': 20000, 'thorough': 200000}, oracles_gen.c13,
    required_probes=('second-side-list-checked', 'na:2', 'na:3',
                     'writer-decisions-observed',
                     'second-side-file-vs-reader'))
PROPS['C09'] = GenSpec(
    'C09',
    'seeded generator argument vectors (small: <= 4 agents per side, lists '
    '<= 3) x RNG seeds, each generated file then loaded and solved by the '
    'real solver in LP mode (random admissible option set, -stab when '
    'two-sided, stand-in back end with seeded tie-break) and in brute-force '
    'mode, in one simulated world; every run is a full comparison with the '
    'reference parse and semantics; distinct = distinct event-log digests',
    {'quick': 15000, 'thorough': 150000}, oracles_gen.c09,
    required_probes=('mp:ha', 'mp:sm', 'mp:hr', 'mp:spa', 'session:bf',
                     'session:lp', 'lp-stab', 'bf-infeasible',
                     'lp-infeasible'))
PROPS['C15'] = C15Spec(
    'C15',
    'seeded legal generator argument vectors per type, and all single-fault '
    'perturbations of each (one required parameter removed incl. -numinst, '
    '-o, -mp; one parameter documented only for other types added; one bound '
    'violated); acceptance with numinst files, or SystemExit(2) with usage '
    'text and zero mkdir/write events in the audit-hook spy; distinct = '
    'distinct event-log digests (every run is non-trivial)',
    {'quick': 5000, 'thorough': 50000}, oracles_gen.c15,
    required_probes=('accept:ha', 'accept:sm', 'accept:hr', 'accept:spa',
                     'reject:drop-required', 'reject:banned', 'reject:bound'))
