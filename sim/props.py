"""Registry: how each claimed property is built, expanded, evaluated, shrunk."""
import copy
import random

import execute
import instances
import oracles
import scenarios

COMPONENTS_LP = {
    'real': ['matchingproblems.solver (Solver, Options_parser, fileIO, Model, '
             'LP_Solver, Brute_force_solver) from /repo working tree',
             'PuLP modelling layer (LpProblem, LpVariable, constraints, '
             'LpProblem.solve, assignVarsVals, assignStatus)',
             'real file system (per-run directory, observed by audit hook)',
             'real CBC in the cross-check sample and the real lane'],
    'stub': ['MILP back end: exact enumerating stand-in at '
             'COIN_CMD.actualSolve (any optimum / injected faults)',
             'wall clock: simulated datetime in matchingproblems.solver.solver']}

ASSUME_LP = [
    'instances are bounded (<= 5 students, <= 4 projects, lists <= 3) so the '
    'reference model can enumerate every assignment',
    'a correct MILP back end reports integer variables with exactly integral '
    'values and may return any optimal solution; the stand-in enumerates the '
    'optimal set exactly and is cross-checked against real CBC in every batch',
    'the reference model (sim/refmodel.py) implements the README / thesis '
    'definitions correctly; it shares no code with the repository']


class LPSpec(object):
    level = 'exploration'
    min_budget = {'quick': 250, 'thorough': 400}
    components = COMPONENTS_LP
    assumptions = ASSUME_LP
    required_probes = ()
    real_lane = {'quick': 0.03, 'thorough': 0.06}
    xrate = {'quick': 0.04, 'thorough': 0.10}
    min_crit = 0
    max_crit = 9
    keep_stab = False

    def __init__(self, prop, rule, runs, required_probes=()):
        self.prop = prop
        self.rule = rule
        self.runs = runs
        self.required_probes = required_probes
        self.oracle = oracles.LP_ORACLES.get(prop)
        self.builder = scenarios.BUILDERS[prop]

    def build(self, rng, tier):
        sc = self.builder(rng, tier)
        sc['tier'] = tier
        if not sc['backend'].get('faults') and \
                rng.random() < self.real_lane[tier]:
            sc['backend']['policy'] = 'real'
        return sc

    def expand(self, sc, rng, tier):
        return [sc]

    def evaluate(self, sc, xstats=None, xrng=None):
        ctx = oracles.LPContext(sc)
        xcheck = None
        if xstats is not None and sc['backend'].get('policy') != 'real':
            xcheck = {'rate': self.xrate.get(sc.get('tier', 'quick'), 0.04),
                      'rng': random.Random(sc['backend'].get('choice_seed',
                                                             0) ^ 0x5bd1e995),
                      'stats': xstats}
        tr = execute.run_lp(sc, prefer=ctx.prefer, xcheck=xcheck)
        v = self.oracle(ctx, tr)
        return tr, v

    def shrink(self, sc):
        for c in shrink_lp(sc, self.min_crit, self.keep_stab):
            yield c


def _clamp_opts(sc):
    mr = scenarios.maxrank_of(sc['inst'])
    for c in sc['opts'].get('criteria', []):
        if c['name'] == 'gen' and c.get('extra'):
            c['extra'] = [max(1, min(c['extra'][0], max(1, mr)))]
    if not sc['inst']['twopl']:
        sc['opts']['stab'] = False
    return sc


def shrink_lp(sc, min_crit=0, keep_stab=False):
    opts = sc.get('opts', {})
    crit = opts.get('criteria', [])
    # options first (cheap, big effect)
    if len(crit) > min_crit:
        for k in range(len(crit)):
            c = copy.deepcopy(sc)
            del c['opts']['criteria'][k]
            yield c
    if opts.get('pc'):
        c = copy.deepcopy(sc)
        c['opts']['pc'] = False
        yield c
    if opts.get('stab') and not keep_stab:
        c = copy.deepcopy(sc)
        c['opts']['stab'] = False
        yield c
    faults = sc.get('backend', {}).get('faults') or []
    for k in range(len(faults)):
        c = copy.deepcopy(sc)
        del c['backend']['faults'][k]
        yield c
    for k, f in enumerate(faults):
        if f.get('persist'):
            c = copy.deepcopy(sc)
            c['backend']['faults'][k]['persist'] = False
            yield c
        if f.get('values', 'zeros') != 'zeros':
            c = copy.deepcopy(sc)
            c['backend']['faults'][k]['values'] = 'zeros'
            yield c
    ops = sc.get('ops', [])
    if len(ops) > 2:
        for k in range(len(ops) - 1, 0, -1):
            c = copy.deepcopy(sc)
            del c['ops'][k]
            if any(o[0] != 'solve' and o[0] != 'idle' for o in c['ops']):
                yield c
    if 'inst' in sc:
        for inst in instances.shrink_candidates(sc['inst']):
            c = copy.deepcopy(sc)
            c['inst'] = inst
            yield _clamp_opts(c)
    for k, cr in enumerate(crit):
        if cr.get('extra'):
            c = copy.deepcopy(sc)
            c['opts']['criteria'][k]['extra'] = cr['extra'][:-1]
            yield c
    if sc.get('backend', {}).get('policy') not in ('first', 'real'):
        c = copy.deepcopy(sc)
        c['backend']['policy'] = 'first'
        yield c
    if opts.get('flag_order'):
        c = copy.deepcopy(sc)
        c['opts']['flag_order'] = None
        yield c
    want = list(range(1, len(crit) + 1))
    order = sorted(range(len(crit)), key=lambda k: crit[k]['pos'])
    if [crit[k]['pos'] for k in order] != want:
        c = copy.deepcopy(sc)
        for rank, k in enumerate(order):
            c['opts']['criteria'][k]['pos'] = rank + 1
        yield c


class C03Spec(LPSpec):
    min_crit = 1


class C04Spec(LPSpec):
    min_crit = 2


class C05Spec(LPSpec):
    keep_stab = True


PROPS = {}

PROPS['C01'] = LPSpec(
    'C01',
    'seeded S-LP scenarios (instance x option set x tie-break policy); '
    'non-trivial = at least one acceptable-project assignment of the instance '
    'is invalid (some quota/closure constraint binds); distinct = distinct '
    'event-log digests among those',
    {'quick': 30000, 'thorough': 1000000})
PROPS['C02'] = LPSpec(
    'C02',
    'seeded S-LP scenarios over every subset/order/argument vector of the '
    'nine criteria, -pc, -stab; every run is a verdict comparison with the '
    'reference feasible set, so every run counts as non-trivial; distinct = '
    'distinct event-log digests',
    {'quick': 30000, 'thorough': 1000000})
PROPS['C03'] = C03Spec(
    'C03',
    'seeded S-LP scenarios with exactly one criterion; non-trivial = the '
    'criterion takes at least two distinct values over the feasible '
    'matchings; distinct = distinct event-log digests among those',
    {'quick': 30000, 'thorough': 1000000})
PROPS['C04'] = C04Spec(
    'C04',
    'seeded S-LP scenarios with 2..4 criteria, gapped positions, shuffled '
    'flags; non-trivial = reversing the order or dropping the freeze of some '
    'criterion changes the lexicographic optimum; distinct = distinct '
    'event-log digests among those',
    {'quick': 30000, 'thorough': 1000000})
PROPS['C05'] = C05Spec(
    'C05',
    'seeded two-sided S-LP scenarios with -stab and criteria in {none, '
    'maxsize, minsize}; non-trivial = the stable set is a proper subset of '
    'the valid set; distinct = distinct event-log digests among those',
    {'quick': 30000, 'thorough': 1000000})
PROPS['C11'] = LPSpec(
    'C11',
    'seeded S-LP scenarios, half without criteria under the uniform '
    'tie-break (every valid matching is optimal); non-trivial = printed '
    'matching non-empty; distinct = distinct event-log digests among those',
    {'quick': 30000, 'thorough': 1000000})


# ---------------------------------------------------------------------------
# C14: fault enumeration
# ---------------------------------------------------------------------------
class C14Spec(LPSpec):
    level = 'fault_enumeration'
    real_lane = {'quick': 0.0, 'thorough': 0.0}
    xrate = {'quick': 0.01, 'thorough': 0.02}
    components = dict(COMPONENTS_LP)

    def build(self, rng, tier):
        sc = self.builder(rng, tier)
        sc['tier'] = tier
        return sc

    def expand(self, sc, rng, tier):
        # fault-free dry run: number of rounds K
        dry = copy.deepcopy(sc)
        dry['backend']['durations'] = [1e-4] * 40
        tr = execute.run_lp(dry, keep_sets=False)
        K = len([r for r in tr.rounds if r['solve_index'] == 1])
        out = []
        base = copy.deepcopy(sc)
        base['backend']['durations'] = scenarios.clock_plan(
            rng, sc.get('limit'), K)
        base['K'] = K
        out.append(base)           # fault-free under a seeded clock plan
        if K == 0 or K > 10:
            return out
        for plan in scenarios.c14_plans(rng, K, sc.get('limit'), tier):
            c = copy.deepcopy(sc)
            c['backend']['faults'] = plan
            c['backend']['durations'] = scenarios.clock_plan(
                rng, sc.get('limit'), K)
            c['backend']['choice_seed'] = rng.randrange(2 ** 31)
            c['K'] = K
            out.append(c)
        return out


PROPS['C14'] = C14Spec(
    'C14',
    'per seeded scenario (instance x criteria x time limit) a fault-free run '
    'fixes the number K of back-end solves; then every single fault (round '
    '1..K x {Infeasible, Unbounded, Undefined, Not Solved, time-limit stop '
    'with incumbent, without incumbent} x {transient, persistent} x value '
    'mode) and a seeded sample of fault pairs is injected, each under a '
    'seeded clock plan; non-trivial = some round did not end in a proven '
    'optimum; distinct = distinct event-log digests among those',
    {'quick': 400, 'thorough': 12000},
    required_probes=('cut-short:tl-incumbent', 'cut-short:tl-no-incumbent',
                     'cut-short:status:Not Solved', 'cut-after-first-round'))
PROPS['C14'].oracle = oracles.c14


# ---------------------------------------------------------------------------
# C16
# ---------------------------------------------------------------------------
class C16Spec(LPSpec):
    real_lane = {'quick': 0.0, 'thorough': 0.0}

    def build(self, rng, tier):
        sc = self.builder(rng, tier)
        sc['tier'] = tier
        return sc

    def expand(self, sc, rng, tier):
        if sc.get('c16') != 'fault-prefix':
            return [sc]
        dry = copy.deepcopy(sc)
        tr = execute.run_lp(dry, keep_sets=False)
        K = len([r for r in tr.rounds if r['solve_index'] == 1])
        if K == 0:
            return [sc]
        out = []
        for _ in range(3):
            c = copy.deepcopy(sc)
            c['backend']['faults'] = [{
                'round': rng.randint(1, K),
                'kind': rng.choice(scenarios.STATUS_FAULTS),
                'persist': rng.random() < 0.5,
                'values': rng.choice(scenarios.VALUE_MODES)}]
            out.append(c)
        return out

    def evaluate(self, sc, xstats=None, xrng=None):
        if sc.get('c16') == 'refuse':
            tr = execute.run_lp(sc)
            return tr, oracles.c16_refuse(sc, tr)
        ctx = oracles.LPContext(sc)
        tr = execute.run_lp(sc, prefer=ctx.prefer)
        return tr, oracles.c16_order(ctx, tr)

    def shrink(self, sc):
        if sc.get('c16') == 'refuse':
            for c in shrink_lp(sc, 1, True):
                yield c
            if sc.get('no_file'):
                c = copy.deepcopy(sc)
                c['no_file'] = False
                yield c
            return
        for c in shrink_lp(sc, 1, False):
            yield c


PROPS['C16'] = C16Spec(
    'C16',
    'seeded position assignments x flag permutations x extra-argument vectors '
    'on a small instance: (a) valid ones: optimisation_options and the '
    'reported "- optimisation:" lines follow position order and the result is '
    'the lexicographic optimum in that order; (b) invalid ones (position out '
    'of 1..9, shared position, -stab without -twopl; instance file present or '
    'missing): SystemExit(2) and no open of the instance in the audit-hook '
    'spy; (c) a status fault at a seeded round: reported prefix; non-trivial '
    '= flags given out of position order, or a refusal; distinct = distinct '
    'event-log digests among those',
    {'quick': 12000, 'thorough': 400000},
    required_probes=('refuse:pos-out-of-range', 'refuse:duplicate-pos',
                     'refuse:stab-without-twopl', 'refuse-with-missing-file',
                     'prefix-under-injected-fault', 'gapped'))


# ---------------------------------------------------------------------------
# C18
# ---------------------------------------------------------------------------
class C18Spec(LPSpec):
    real_lane = {'quick': 0.02, 'thorough': 0.03}

    def shrink(self, sc):
        ops = sc['ops']
        for k in range(len(ops) - 1, 0, -1):
            c = copy.deepcopy(sc)
            del c['ops'][k]
            yield c
        for c in shrink_lp(sc, 0, False):
            yield c
        if sc['opts'].get('bf'):
            c = copy.deepcopy(sc)
            c['opts']['bf'] = False
            yield c


PROPS['C18'] = C18Spec(
    'C18',
    'seeded API histories of length 2..12 over {solve, get_results, '
    'get_results_short, get_results_long, get_debug, idle gap} starting with '
    'solve, LP and brute-force mode, back end drawing a fresh optimal '
    'tie-break on every solve; non-trivial = history with a second solve or '
    'a repeated getter; distinct = distinct event-log digests among those',
    {'quick': 12000, 'thorough': 400000},
    required_probes=('different-matchings-across-solves',
                     'repeated-getter-calls', 'bf'))
PROPS['C18'].oracle = oracles.c18


# ---------------------------------------------------------------------------
# C06
# ---------------------------------------------------------------------------
class C06Spec(LPSpec):
    keep_stab = True
    real_lane = {'quick': 0.0, 'thorough': 0.0}
    xrate = {'quick': 0.0, 'thorough': 0.0}

    def build(self, rng, tier):
        sc = self.builder(rng, tier)
        sc['tier'] = tier
        return sc

    def shrink(self, sc):
        byz = sc.get('byz')
        if byz and len(byz) > 1:
            for k in range(len(byz)):
                c = copy.deepcopy(sc)
                c['byz'] = [byz[k]]
                c['ops'] = [['solve', {}], ['get_results']]
                yield c
        if byz:
            # instance shrinking would invalidate the recorded assignments:
            # shrink quotas/ties only through candidates that keep them legal
            for inst in instances.shrink_candidates(sc['inst']):
                if len(inst['students']) != len(sc['inst']['students']) or \
                        len(inst['projects']) != len(sc['inst']['projects']):
                    continue
                c = copy.deepcopy(sc)
                c['inst'] = inst
                if _byz_legal(c):
                    yield c
            if sc['opts'].get('pc'):
                c = copy.deepcopy(sc)
                c['opts']['pc'] = False
                yield c
            return
        for c in shrink_lp(sc, 0, True):
            yield c


def _byz_legal(sc):
    import refmodel as rm
    try:
        I = rm.parse(instances.render(sc['inst']), sc['na'], True)
    except Exception:
        return False
    for M in sc['byz']:
        M = tuple(M)
        if not rm.acceptable(I, M):
            return False
        pc, lc = rm.counts(I, M)
        if any(pc[j] > I.puq[j] for j in range(I.n2)) or \
                any(lc[k] > I.luq[k] for k in range(I.n3)):
            return False
    return True


PROPS['C06'] = C06Spec(
    'C06',
    'seeded two-sided instances under -stab with a Byzantine back end that '
    'answers each solve with a seeded assignment respecting acceptability and '
    'project/lecturer upper quotas only (half stable, half unstable by the '
    'reference), 2..8 assignments per loaded instance through repeated '
    'solve(); one run in four is a fault-free -stab run (corollary); '
    'non-trivial = run containing at least one assignment with a blocking '
    'pair; distinct = distinct event-log digests among those',
    {'quick': 8000, 'thorough': 300000},
    required_probes=('blocking:3a', 'blocking:3b-in', 'blocking:3b-pref',
                     'blocking:3c', 'full-and-empty-agent',
                     'fault-free-stab'))
PROPS['C06'].oracle = oracles.c06
