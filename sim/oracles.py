"""Oracles: one function per claimed property over (scenario, trace, reference).

Oracles read only documented observables: result/debug text, SystemExit codes,
files, documented Model attributes, Options_parser.optimisation_options and the
program handed over at the back-end seam (as FEAS/OPT sets of assignments).
A violation is (class, site, detail); signature = class@site.
"""
import ast
import re

import refmodel as rm
from execute import criteria_in_order

STAT_KEYS = ('matching', 'size', 'cost', 'cost_sq', 'degree', 'profile',
             'max_lec_abs_diff', 'sum_lec_abs_diff', 'stability_correct')
LISTING_KEYS = ('Student_assignments', 'Project_assignments',
                'Lecturer_assignments')

OPT_LINE_KEYWORDS = [
    ('maximising size', 'maxsize'), ('minimising size', 'minsize'),
    ('generous', 'gen'), ('greedy', 'gre'),
    ('sum of square', 'minsqcost'), ('sum of ranks', 'mincost'),
    ('load max', 'lmb'), ('load sum', 'lsb'),
    ('lecturer load balancing', 'mincostlsb'),
]
ENUM_NAME = {'maxsize': 'MAXSIZE', 'minsize': 'MINSIZE', 'gen': 'GENEROUS',
             'gre': 'GREEDY', 'mincost': 'MINCOST', 'minsqcost': 'MINSQCOST',
             'lmb': 'LOADMAXBAL', 'lsb': 'LOADSUMBAL',
             'mincostlsb': 'MINCOSTLSB'}


def _line(text, key):
    m = re.search(r'^[ \t]*' + re.escape(key) + r'[ \t]*:[ \t]*(.*?)[ \t]*$',
                  text, re.M)
    return m.group(1) if m else None


def parse_results(text):
    """Key/value view of a results text (short or long format)."""
    r = {'raw': text}
    r['status'] = _line(text, 'pulp_status')
    t = re.search(r'^[ \t]*Timeout:[ \t]*(\S+)[ \t]*seconds', text, re.M)
    r['timeout'] = t.group(1) if t else None
    m = _line(text, 'matching')
    r['matching'] = None
    if m is not None:
        try:
            r['matching'] = tuple(int(x) for x in m.split())
        except ValueError:
            r['matching'] = ('unparsable', m)
    for k in ('size', 'degree', 'max_lec_abs_diff', 'sum_lec_abs_diff'):
        v = _line(text, k)
        try:
            r[k] = None if v is None else int(v)
        except ValueError:
            r[k] = ('unparsable', v)
    for k in ('cost', 'cost_sq'):
        v = _line(text, k)
        if v is None:
            r[k] = None
        else:
            nums = re.findall(r'-?\d+', v)
            r[k] = tuple(int(x) for x in nums)
    v = _line(text, 'profile')
    r['profile'] = None if v is None else [int(x) for x in
                                           re.findall(r'-?\d+', v)]
    v = _line(text, 'stability_correct')
    r['stability_correct'] = v
    r['opt_lines'] = [l.strip() for l in text.split('\n')
                      if l.strip().startswith('- optimisation')]
    r['present'] = [k for k in STAT_KEYS if _line(text, k) is not None] + \
        [k for k in LISTING_KEYS if re.search(r'^[ \t]*' + k, text, re.M)]
    return r


def classify_opt_line(line):
    low = line.lower()
    for kw, name in OPT_LINE_KEYWORDS:
        if kw in low:
            return name
    return None


class LPContext(object):
    """Reference view of one lp-family scenario.  Everything that needs the
    exhaustive enumeration is computed lazily, so that big instances (real
    lane at scale) can use the parts that do not."""

    ENUM_CAP = 60000

    def __init__(self, sc, inst_text=None):
        import instances
        self.sc = sc
        text = inst_text if inst_text is not None else (
            sc.get('inst_text') or instances.render(sc['inst']))
        self.text = text
        self.I = rm.parse(text, sc['na'], sc['twopl'])
        opts = sc.get('opts', {})
        self.pc = bool(opts.get('pc'))
        self.stab = bool(opts.get('stab'))
        self.crit = criteria_in_order(opts)
        self._c = {}

    def _enum(self):
        if 'W' not in self._c:
            if rm.space_size(self.I) > self.ENUM_CAP:
                raise_harness('reference enumeration requested on a big '
                              'instance (%d assignments)'
                              % rm.space_size(self.I))
            W = rm.World(self.I)
            c = self._c
            c['W'] = W
            c['V'] = W.valid_set(self.pc)
            c['F'] = W.feasible(self.pc, self.stab)
            c['Fset'] = set(c['F'])
            c['LEX'], c['bests'], c['sizes'] = W.lex_filter(c['F'],
                                                            self.crit)
            c['LEXset'] = set(c['LEX'])
        return self._c

    W = property(lambda self: self._enum()['W'])
    V = property(lambda self: self._enum()['V'])
    F = property(lambda self: self._enum()['F'])
    Fset = property(lambda self: self._enum()['Fset'])
    LEX = property(lambda self: self._enum()['LEX'])
    bests = property(lambda self: self._enum()['bests'])
    sizes = property(lambda self: self._enum()['sizes'])
    LEXset = property(lambda self: self._enum()['LEXset'])

    def prefer(self, M):
        """adversarial tie-break: prefer optima the reference rejects."""
        return 0 if M in self.LEXset else 1


def first_exception(tr):
    for c in tr.calls:
        if not c['ok']:
            return c
    return None


def last_text(tr, op):
    out = None
    for c in tr.calls:
        if c['op'] == op and c['ok']:
            out = c['text']
    return out


def outcome(tr):
    """('error', call) | ('optimal', parsed) | ('infeasible', parsed) |
    ('other', parsed)"""
    c = first_exception(tr)
    if c is not None:
        return 'error', c
    text = None
    for op in ('get_results', 'get_results_short', 'get_results_long'):
        text = last_text(tr, op)
        if text is not None:
            break
    if text is None:
        return 'none', None
    r = parse_results(text)
    if r['status'] == 'Optimal' and r['matching'] is not None:
        return 'optimal', r
    if r['status'] == 'Infeasible' and r['matching'] is None:
        return 'infeasible', r
    return 'other', r


def last_round_sets(tr):
    rs = [r for r in tr.rounds if 'feas' in r]
    if not rs:
        return None, None
    return rs[-1].get('feas'), rs[-1].get('opt')


def _breach_site(breaches):
    b = breaches[0]
    if 'acceptable' in b:
        return 'student-not-acceptable'
    if 'length' in b:
        return 'matching-length'
    m = re.match(r'([pl])\d+ (below lower|above upper)', b)
    return '%s-%s' % ({'p': 'project', 'l': 'lecturer'}[m.group(1)],
                      m.group(2).split()[1])


def _is_plain(M):
    return all(isinstance(x, int) for x in M)


# ---------------------------------------------------------------------------
# C01
# ---------------------------------------------------------------------------
def c01(ctx, tr):
    res = {'violations': [], 'probes': {}, 'nontrivial': False,
           'skipped': None}
    kind, r = outcome(tr)
    I = ctx.I
    # non-trivial: some acceptable assignment is invalid
    nall = len(ctx.W.all)
    res['nontrivial'] = len(ctx.V) < nall
    for abl in ('no_plq', 'no_puq', 'no_llq', 'no_luq'):
        res['probes']['binds:' + abl] = int(
            len(ctx.W.valid_set(ctx.pc, (abl,))) != len(ctx.V))
    if ctx.pc:
        res['probes']['binds:closure'] = int(
            len(ctx.W.valid_set(False)) != len(ctx.V))
    if kind != 'optimal':
        res['skipped'] = 'c02-class:' + kind
        return res
    M = r['matching']
    br = rm.validity_breaches(I, M, ctx.pc)
    if br:
        res['violations'].append(('invalid-matching', _breach_site(br),
                                  {'matching': M, 'breaches': br}))
    feas, opt = last_round_sets(tr)
    if opt is not None:
        for Mo in opt:
            if not _is_plain(Mo):
                res['violations'].append(
                    ('invalid-optimum', 'student-multiple-projects',
                     {'optimum': repr(Mo)}))
                break
            br = rm.validity_breaches(I, Mo, ctx.pc)
            if br:
                res['violations'].append(
                    ('invalid-optimum', _breach_site(br),
                     {'optimum': Mo, 'breaches': br}))
                break
    return res


# ---------------------------------------------------------------------------
# C02
# ---------------------------------------------------------------------------
def c02(ctx, tr):
    res = {'violations': [], 'probes': {}, 'nontrivial': False,
           'skipped': None}
    kind, r = outcome(tr)
    feasible = bool(ctx.F)
    names = [n for n, _ in ctx.crit]
    res['nontrivial'] = True
    res['probes']['infeasible-instance'] = int(not feasible)
    res['probes']['lecturers>students'] = int(ctx.I.n3 > ctx.I.n1)
    res['probes']['lec-multiplier>0'] = int(any(
        n in ('mincost', 'minsqcost', 'mincostlsb') and len(e) > 1 and e[1] > 0
        for n, e in ctx.crit))
    res['probes']['mincost+minsqcost'] = int('mincost' in names and
                                             'minsqcost' in names)
    for n in names:
        res['probes']['crit:' + n] = 1
    if kind == 'error':
        e = r['exc']
        if e['type'] == 'RunTimeout':
            res['violations'].append(('non-termination', r['op'], {}))
        else:
            res['violations'].append(
                ('exception:' + e['type'], e['site'] or r['op'],
                 {'msg': e['msg'], 'op': r['op'], 'tb': e['tb']}))
        return res
    if kind == 'optimal':
        if not feasible:
            res['violations'].append(
                ('reported-optimal-on-infeasible', _feature_site(ctx),
                 {'matching': r['matching']}))
    elif kind == 'infeasible':
        if feasible:
            res['violations'].append(
                ('wrong-infeasible', _stage_site(ctx, r),
                 {'witness': ctx.F[0], 'n_feasible': len(ctx.F),
                  'features': _feature_site(ctx)}))
    else:
        res['violations'].append(
            ('bad-status', str(r and r['status']),
             {'text': (r or {}).get('raw', '')[:400]}))
    return res


def _stage_site(ctx, r):
    """Stage at which the run stopped, read off the reported
    '- optimisation:' lines: the last reported criterion, or the constraint
    set when none was reported."""
    lines = r.get('opt_lines') or []
    if lines:
        return classify_opt_line(lines[-1]) or 'unknown-criterion'
    return 'constraints' + ('+stab' if ctx.stab else '') + \
        ('+pc' if ctx.pc else '')


def _feature_site(ctx):
    """Which requested features the run had (stable id for a finding)."""
    feats = []
    if ctx.stab:
        feats.append('stab')
    if ctx.pc:
        feats.append('pc')
    feats += [n for n, _ in ctx.crit]
    return '+'.join(feats) or 'plain'


# ---------------------------------------------------------------------------
# C03 / C04
# ---------------------------------------------------------------------------
def c03(ctx, tr):
    res = {'violations': [], 'probes': {}, 'nontrivial': False,
           'skipped': None}
    if len(ctx.crit) != 1:
        res['skipped'] = 'not-single-criterion'
        return res
    name, extra = ctx.crit[0]
    kind, r = outcome(tr)
    keys = set(rm.key(ctx.I, ctx.W.meas(M), name, extra) for M in ctx.F)
    res['nontrivial'] = len(keys) >= 2
    res['probes']['crit:' + name] = 1
    res['probes']['discriminating:' + name] = int(len(keys) >= 2)
    if extra:
        res['probes']['extra-args:' + name] = 1
    if kind != 'optimal' or not ctx.F:
        res['skipped'] = 'c02-class:' + kind
        return res
    best = ctx.bests[0]
    M = r['matching']
    if not rm.acceptable(ctx.I, M):
        res['skipped'] = 'c01-class:unacceptable'
        return res
    k = rm.key(ctx.I, ctx.W.meas(M), name, extra)
    if k != best:
        res['violations'].append(
            ('non-optimal', name, {'matching': M, 'value': k, 'best': best,
                                   'in_F': M in ctx.Fset}))
    feas, opt = last_round_sets(tr)
    if opt is not None:
        for Mo in opt:
            if not _is_plain(Mo) or not rm.acceptable(ctx.I, Mo):
                continue        # C01's business
            ko = rm.key(ctx.I, ctx.W.meas(Mo), name, extra)
            if ko != best:
                res['violations'].append(
                    ('non-optimal-optimum', name,
                     {'optimum': Mo, 'value': ko, 'best': best}))
                break
    return res


def c04(ctx, tr):
    res = {'violations': [], 'probes': {}, 'nontrivial': False,
           'skipped': None}
    if len(ctx.crit) < 2:
        res['skipped'] = 'fewer-than-two-criteria'
        return res
    kind, r = outcome(tr)
    W = ctx.W
    # discriminating: reversing the order, or dropping the freeze of
    # criterion j, changes the optimum vector
    if ctx.F:
        rev = list(reversed(ctx.crit))
        LEXr, _, _ = W.lex_filter(ctx.F, rev)
        res['probes']['order-matters'] = int(set(LEXr) != ctx.LEXset)
        for j in range(len(ctx.crit) - 1):
            dropped = ctx.crit[:j] + ctx.crit[j + 1:]
            LEXd, _, _ = W.lex_filter(ctx.F, dropped)
            if not set(LEXd) <= ctx.LEXset:
                res['probes']['freeze-matters:%d' % (j + 1)] = 1
                res['nontrivial'] = True
        if res['probes'].get('order-matters'):
            res['nontrivial'] = True
    res['probes']['ncrit:%d' % len(ctx.crit)] = 1
    if kind != 'optimal' or not ctx.F:
        res['skipped'] = 'c02-class:' + kind
        return res
    M = r['matching']
    if not rm.acceptable(ctx.I, M):
        res['skipped'] = 'c01-class:unacceptable'
        return res

    def first_bad(Mx):
        kv = W.key_vector(Mx, ctx.crit)
        for j, (k, b) in enumerate(zip(kv, ctx.bests)):
            if k != b:
                return j, k, b
        return None
    fb = first_bad(M)
    if fb is not None:
        res['violations'].append(
            ('non-lex-optimal', ctx.crit[fb[0]][0],
             {'matching': M, 'criterion_index': fb[0], 'value': fb[1],
              'best': fb[2], 'order': [n for n, _ in ctx.crit]}))
    feas, opt = last_round_sets(tr)
    if opt is not None:
        for Mo in opt:
            if not _is_plain(Mo) or not rm.acceptable(ctx.I, Mo):
                continue
            fb = first_bad(Mo)
            if fb is not None:
                res['violations'].append(
                    ('non-lex-optimal-optimum', ctx.crit[fb[0]][0],
                     {'optimum': Mo, 'criterion_index': fb[0],
                      'value': fb[1], 'best': fb[2],
                      'order': [n for n, _ in ctx.crit]}))
                break
    return res


# ---------------------------------------------------------------------------
# C05
# ---------------------------------------------------------------------------
STAB_ABLATIONS = ('weak_lec', 'no_3b_same_lec', 'no_3a', 'no_3b', 'no_3c',
                  'weak_student')


def c05(ctx, tr):
    res = {'violations': [], 'probes': {}, 'nontrivial': False,
           'skipped': None}
    if not ctx.stab:
        res['skipped'] = 'no-stab'
        return res
    I, W = ctx.I, ctx.W
    kind, r = outcome(tr)
    res['nontrivial'] = 0 < len(ctx.F) < len(ctx.V) or \
        (len(ctx.V) > 0 and not ctx.F)
    for abl in STAB_ABLATIONS:
        Fa = W.stable_subset(ctx.V, (abl,))
        res['probes']['discriminates:' + abl] = int(set(Fa) != ctx.Fset)
    res['probes']['no-stable-matching'] = int(bool(ctx.V) and not ctx.F)
    if kind == 'error':
        res['skipped'] = 'c02-class:error'
        return res
    # set level: program handed over at round 1 == stable valid matchings
    rs = [x for x in tr.rounds if 'feas' in x]
    if rs:
        feas1 = rs[0]['feas']
        fs = set(feas1)
        extra = [M for M in feas1 if M not in ctx.Fset]
        missing = [M for M in ctx.F if M not in fs]
        if extra:
            M = extra[0]
            if _is_plain(M) and rm.valid(I, M, ctx.pc):
                bp = rm.blocking_pairs(I, M)
                res['violations'].append(
                    ('feasible-set-admits-unstable', bp[0][2],
                     {'assignment': M, 'blocking_pairs': bp[:3]}))
            else:
                res['violations'].append(
                    ('feasible-set-admits-invalid', 'stab',
                     {'assignment': repr(M)}))
        only_size = all(n in ('maxsize', 'minsize') for n, _ in ctx.crit)
        res['probes']['criteria-beyond-size'] = int(not only_size)
        if missing and only_size:
            # with other first criteria an auxiliary bound may legitimately
            # cut non-optimal matchings: only soundness is checked there
            res['violations'].append(
                ('feasible-set-excludes-stable', 'stab',
                 {'assignment': missing[0], 'n_missing': len(missing),
                  'n_stable': len(ctx.F)}))
    if kind == 'infeasible':
        if ctx.F:
            res['violations'].append(
                ('wrong-infeasible-under-stab', 'stab',
                 {'witness': ctx.F[0], 'n_stable': len(ctx.F)}))
        return res
    if kind != 'optimal':
        res['skipped'] = 'c02-class:' + kind
        return res
    M = r['matching']
    if rm.acceptable(I, M):
        bp = rm.blocking_pairs(I, M)
        if bp:
            res['violations'].append(
                ('unstable-matching', bp[0][2],
                 {'matching': M, 'blocking_pairs': bp[:3]}))
    # max / min size over stable matchings
    if ctx.F and len(ctx.crit) >= 1 and rm.acceptable(I, M):
        name, extra = ctx.crit[0]
        if name in ('maxsize', 'minsize'):
            sizes = [W.meas(X)['size'] for X in ctx.F]
            want = max(sizes) if name == 'maxsize' else min(sizes)
            if r['size'] is not None and r['size'] != want:
                res['violations'].append(
                    ('wrong-stable-size', name,
                     {'printed': r['size'], 'expected': want}))
            res['probes']['stable-sizes-differ'] = int(len(set(sizes)) > 1)
    if r.get('stability_correct') not in (None, 'True'):
        res['probes']['stability_correct-not-True'] = 1
    return res


# ---------------------------------------------------------------------------
# C11
# ---------------------------------------------------------------------------
def _expected_stats(I, M):
    m = rm.measures(I, M)
    return {'size': m['size'], 'cost': m['cost'], 'cost_sq': m['cost_sq'],
            'degree': m['degree'], 'profile': m['profile'],
            'max_lec_abs_diff': m['maxd'], 'sum_lec_abs_diff': m['sumd']}, m


def check_long_listing(I, M, text):
    """Student/Project/Lecturer listings of the long format."""
    bad = []
    sec = {}
    cur = None
    for line in text.split('\n'):
        s = line.strip()
        hit = None
        for k in LISTING_KEYS:
            if s.startswith(k):
                hit = k
        if hit:
            cur = hit
            sec[cur] = []
            continue
        if s.startswith('#') or not s:
            continue
        if cur:
            sec[cur].append(s)
    for k in LISTING_KEYS:
        if k not in sec:
            bad.append(('listing-missing', k, {}))
    if bad:
        return bad
    pc, lc = rm.counts(I, M)
    # students
    seen = {}
    for s in sec['Student_assignments']:
        m = re.match(r's_(\d+)\b(.*)$', s)
        if not m:
            continue
        i = int(m.group(1))
        seen.setdefault(i, []).append(m.group(2))
    for i in range(1, I.n1 + 1):
        if len(seen.get(i, [])) != 1:
            bad.append(('listing-student-count', 'Student_assignments',
                        {'student': i, 'lines': seen.get(i)}))
            continue
        rest = seen[i][0]
        p = M[i - 1]
        mp = re.search(r'p_(\d+)', rest)
        ml = re.search(r'l_(\d+)', rest)
        if p == 0:
            if mp or 'no assignment' not in rest:
                bad.append(('listing-student-wrong', 'Student_assignments',
                            {'student': i, 'line': rest, 'expected': 0}))
        else:
            if not mp or int(mp.group(1)) != p or not ml or \
                    int(ml.group(1)) != I.plec[p - 1]:
                bad.append(('listing-student-wrong', 'Student_assignments',
                            {'student': i, 'line': rest, 'expected': p,
                             'lecturer': I.plec[p - 1]}))
    if set(seen) - set(range(1, I.n1 + 1)):
        bad.append(('listing-student-extra', 'Student_assignments',
                    {'ids': sorted(set(seen) - set(range(1, I.n1 + 1)))}))
    # projects
    seen = {}
    for s in sec['Project_assignments']:
        m = re.match(r'p_(\d+)\s*\(l_(\d+)\)\s*:(.*)$', s)
        if not m:
            continue
        seen.setdefault(int(m.group(1)), []).append(
            (int(m.group(2)), m.group(3)))
    for j in range(1, I.n2 + 1):
        if len(seen.get(j, [])) != 1:
            bad.append(('listing-project-count', 'Project_assignments',
                        {'project': j}))
            continue
        lec, rest = seen[j][0]
        studs = sorted(int(x) for x in re.findall(r's_(\d+)', rest))
        want = sorted(i + 1 for i, p in enumerate(M) if p == j)
        occ = re.search(r'(\d+)\s*/\s*(\d+)', rest)
        if lec != I.plec[j - 1] or studs != want or not occ or \
                int(occ.group(1)) != pc[j - 1] or \
                int(occ.group(2)) != I.puq[j - 1] or \
                (not want and 'no assignment' not in rest):
            bad.append(('listing-project-wrong', 'Project_assignments',
                        {'project': j, 'line': rest, 'lecturer': lec,
                         'expected_students': want,
                         'expected_occ': '%d/%d' % (pc[j - 1],
                                                    I.puq[j - 1])}))
    if set(seen) - set(range(1, I.n2 + 1)):
        bad.append(('listing-project-extra', 'Project_assignments', {}))
    # lecturers
    seen = {}
    for s in sec['Lecturer_assignments']:
        m = re.match(r'l_(\d+)\s*:(.*)$', s)
        if not m:
            continue
        seen.setdefault(int(m.group(1)), []).append(m.group(2))
    for k in range(1, I.n3 + 1):
        if len(seen.get(k, [])) != 1:
            bad.append(('listing-lecturer-count', 'Lecturer_assignments',
                        {'lecturer': k}))
            continue
        rest = seen[k][0]
        got = sorted((int(a), int(b)) for a, b in
                     re.findall(r's_(\d+)\s*\(\s*p_(\d+)\s*\)', rest))
        want = sorted((i + 1, p) for i, p in enumerate(M)
                      if p and I.plec[p - 1] == k)
        occ = re.search(r'(\d+)\s*/\s*(\d+)\s*\(\s*(\d+)\s*\)', rest)
        if got != want or not occ or int(occ.group(1)) != lc[k - 1] or \
                int(occ.group(2)) != I.luq[k - 1] or \
                int(occ.group(3)) != I.lt[k - 1] or \
                (not want and 'no assignment' not in rest):
            bad.append(('listing-lecturer-wrong', 'Lecturer_assignments',
                        {'lecturer': k, 'line': rest, 'expected': want,
                         'expected_occ': '%d/%d (%d)' % (
                             lc[k - 1], I.luq[k - 1], I.lt[k - 1])}))
    if set(seen) - set(range(1, I.n3 + 1)):
        bad.append(('listing-lecturer-extra', 'Lecturer_assignments', {}))
    return bad


def c11(ctx, tr):
    res = {'violations': [], 'probes': {}, 'nontrivial': False,
           'skipped': None}
    I = ctx.I
    kind, r0 = outcome(tr)
    if kind != 'optimal':
        res['skipped'] = 'c02-class:' + kind
        return res
    texts = [(c['op'], c['text']) for c in tr.calls
             if c['ok'] and c['op'] in ('get_results', 'get_results_short',
                                        'get_results_long')]
    first_M = None
    for op, text in texts:
        r = parse_results(text)
        M = r['matching']
        if M is not None and _is_plain(M) and len(M) != I.n1:
            # "student i's project is the i-th number": one number per student
            res['violations'].append(
                ('matching-line-length', op,
                 {'entries': len(M), 'students': I.n1}))
            return res
        if M is None or not _is_plain(M) or not rm.acceptable(I, M):
            res['skipped'] = 'c01-class:matching-line'
            return res
        if first_M is None:
            first_M = M
        exp, m = _expected_stats(I, M)
        for k, v in exp.items():
            got = r.get(k)
            if isinstance(v, tuple):
                ok = got == v
            elif isinstance(v, list):
                ok = got == v
            else:
                ok = got == v
            if not ok:
                res['violations'].append(
                    ('wrong-statistic', k,
                     {'op': op, 'matching': M, 'printed': got,
                      'expected': v}))
        if op == 'get_results_long':
            res['violations'] += [(c, s, dict(d, op=op, matching=M))
                                  for c, s, d in check_long_listing(I, M,
                                                                    text)]
    if first_M is not None:
        m = rm.measures(I, first_M)
        res['probes']['empty-matching'] = int(m['size'] == 0)
        res['probes']['unassigned-student'] = int(0 in first_M)
        res['probes']['unused-project'] = int(0 in m['pc'])
        res['probes']['lecturer-several-projects'] = int(
            any(I.plec.count(k) > 1 for k in set(I.plec)))
        res['probes']['one-sided'] = int(not I.twopl)
        res['probes']['ties'] = int(any(
            len(set(rk for _, rk in p)) < len(p) for p in I.prefs))
        res['nontrivial'] = m['size'] > 0
    return res


LP_ORACLES = {'C01': c01, 'C02': c02, 'C03': c03, 'C04': c04, 'C05': c05,
              'C11': c11}


# ---------------------------------------------------------------------------
# helpers shared by C14 / C16 / C18
# ---------------------------------------------------------------------------
def rounds_per_criterion(I, crit):
    """Number of back-end solves each criterion needs (README semantics:
    generous from max rank down to the cut-off, greedy from 1 up to it)."""
    out = []
    for name, extra in crit:
        if name == 'gen':
            c = extra[0] if extra else 1
            out.append(len(range(I.maxrank, max(0, c - 1), -1)))
        elif name == 'gre':
            c = extra[0] if extra else I.maxrank
            out.append(len(range(1, min(c, I.maxrank) + 1)))
        else:
            out.append(1)
    return out


def criterion_of_round(I, crit, k):
    """Index of the criterion that contains round k (1-based), or None."""
    if not crit:
        return None
    acc = 0
    for j, n in enumerate(rounds_per_criterion(I, crit)):
        acc += n
        if k <= acc:
            return j
    return None


def getter_texts(tr, solve_index=None):
    out = []
    for c in tr.calls:
        if c['op'] in ('get_results', 'get_results_short',
                       'get_results_long') and c['ok']:
            if solve_index is None or c.get('solve_index') == solve_index:
                out.append((c['op'], c['text']))
    return out


# ---------------------------------------------------------------------------
# C14
# ---------------------------------------------------------------------------
def c14(ctx, tr):
    res = {'violations': [], 'probes': {}, 'nontrivial': False,
           'skipped': None, 'extra': {}}
    sc = ctx.sc
    limit = None
    for op in sc['ops']:
        if op[0] == 'solve':
            limit = (op[1] or {}).get('timeLimit')
            break
    rounds = [r for r in tr.rounds if r['solve_index'] == 1]
    B = None
    for r in rounds:
        if r.get('fault') is not None or r.get('status') != 'Optimal':
            B = r
            break
    plan = sc['backend'].get('faults') or []
    res['probes']['faults-in-plan:%d' % len(plan)] = 1
    if B is not None:
        res['nontrivial'] = True
        res['probes']['cut-short:' + (B.get('fault') or
                                      'genuine-' + str(B.get('status')))] = 1
        res['probes']['cut-at-round:%d' % min(B['round'], 9)] = 1
        if len(rounds) > 1 and B['round'] > 1:
            res['probes']['cut-after-first-round'] = 1
    elif plan:
        res['probes']['fault-not-reached'] = 1
    exc = first_exception(tr)
    if exc is not None:
        e = exc['exc']
        if e['type'] == 'RunTimeout':
            res['skipped'] = 'harness-timeout'
            return res
        if any(r_.get('fault') == 'crash' for r_ in rounds) and \
                exc['op'] == 'solve':
            # (whatever its type: an implementation may wrap PuLP's error)
            # the back end died and the caller was told so by the very
            # exception PuLP raised: nothing is presented as a result
            res['probes']['crash-propagated-to-caller'] = 1
            return res
        res['violations'].append(
            ('exception-under-fault:' + e['type'], e['site'] or exc['op'],
             {'msg': e['msg'], 'op': exc['op'], 'tb': e['tb']}))
        return res
    if not tr.t_solve_return:
        res['skipped'] = 'no-solve'
        return res
    total = tr.t_solve_return[0] - tr.t_entry
    if limit is not None:
        res['probes']['time-limit-set'] = 1
        # the repository reads its clock at most three simulated reads
        # (<= 5 ms each) away from the simulator's own entry / return stamps
        if abs(total - limit) < 0.05:
            res['skipped'] = 'knife-edge'
            return res
        if 0 < total - limit < 1.0:
            res['probes']['overshoot<1s'] = 1
        res['probes']['total>limit' if total > limit else
                      'total<limit'] = 1
    site = 'no-criteria'
    if B is not None and ctx.crit:
        j = criterion_of_round(ctx.I, ctx.crit, B['round'])
        site = ctx.crit[j][0] if j is not None else 'beyond-expected-rounds'
    for op, text in getter_texts(tr, 1):
        r = parse_results(text)
        if B is not None:
            if r['present']:
                res['violations'].append(
                    ('matching-after-cutshort', site,
                     {'op': op, 'shown': r['present'],
                      'first_nonoptimal_round': B['round'],
                      'fault': B.get('fault'), 'status': B.get('status'),
                      'history': [(x['round'], x.get('fault'),
                                   x.get('status')) for x in rounds]}))
                continue
            if B.get('fault') == 'crash':
                # a crash that was absorbed: which status line is shown is
                # not specified, only that no matching is presented
                res['probes']['crash-absorbed-without-matching'] = 1
                continue
            expect_timeout = limit is not None and (
                total > limit or B.get('status') == 'Not Solved')
        else:
            expect_timeout = limit is not None and total > limit
            if expect_timeout and r['present']:
                res['violations'].append(
                    ('matching-after-timeout', site,
                     {'op': op, 'shown': r['present'], 'total': total,
                      'limit': limit}))
                continue
        if expect_timeout:
            ok = r['timeout'] is not None
            try:
                ok = ok and float(r['timeout']) == float(limit)
            except ValueError:
                ok = False
            if not ok:
                res['violations'].append(
                    ('timeout-not-shown', site,
                     {'op': op, 'total': total, 'limit': limit,
                      'status_line': r['status'],
                      'fault': B and B.get('fault'),
                      'B_status': B and B.get('status')}))
        else:
            want = B.get('status') if B is not None else 'Optimal'
            if r['timeout'] is not None or r['status'] != want:
                res['violations'].append(
                    ('wrong-status-shown', site,
                     {'op': op, 'shown_status': r['status'],
                      'shown_timeout': r['timeout'], 'expected': want,
                      'total': total, 'limit': limit,
                      'history': [(x['round'], x.get('fault'),
                                   x.get('status')) for x in rounds]}))
    return res


# ---------------------------------------------------------------------------
# C16
# ---------------------------------------------------------------------------
def c16(ctx, tr):
    """ctx may be None for refusal scenarios (no reference needed)."""
    raise NotImplementedError


def c16_order(ctx, tr):
    res = {'violations': [], 'probes': {}, 'nontrivial': False,
           'skipped': None}
    sc = ctx.sc
    exc = first_exception(tr)
    if exc is not None:
        e = exc['exc']
        res['violations'].append(
            ('valid-options-rejected' if exc['op'] == 'construct'
             else 'exception:' + e['type'],
             e['site'] or exc['op'], {'msg': e['msg'], 'code': e['code'],
                                      'op': exc['op']}))
        return res
    crit = ctx.crit
    names = [n for n, _ in crit]
    raw = sc['opts'].get('criteria', [])
    res['nontrivial'] = len(crit) >= 2 and \
        [c['name'] for c in raw] != names
    res['probes']['gapped'] = int(sorted(c['pos'] for c in raw) !=
                                  list(range(1, len(raw) + 1)))
    res['probes']['flags-out-of-order'] = int(res['nontrivial'])
    res['probes']['ncrit:%d' % len(crit)] = 1
    # (1) Options_parser.optimisation_options
    if isinstance(tr.opt_view, list):
        got = [(n, e) for n, e in tr.opt_view]
        want = [(ENUM_NAME[n], list(e)) for n, e in crit]
        if got != want:
            res['violations'].append(
                ('optimisation_options-order', 'options_parser',
                 {'got': got, 'want': want}))
    # (2) reported lines
    rounds = [r for r in tr.rounds if r['solve_index'] == 1]
    B = None
    for r in rounds:
        # "the first solve that does not reach Optimal": a time-limit stop
        # with an incumbent is reported as Optimal by PuLP and does not count
        if r.get('status') != 'Optimal':
            B = r
            break
    if any(r.get('fault') == 'tl-incumbent' for r in rounds):
        res['probes']['time-limit-stop-with-incumbent'] = 1
    if B is None:
        want_names = names
    else:
        j = criterion_of_round(ctx.I, crit, B['round'])
        want_names = names[:j + 1] if j is not None else names
        res['probes']['prefix-under-nonoptimal'] = 1
        if B.get('fault'):
            res['probes']['prefix-under-injected-fault'] = 1
    for op, text in getter_texts(tr, 1):
        r = parse_results(text)
        got = [classify_opt_line(l) for l in r['opt_lines']]
        if None in got:
            res['skipped'] = 'unclassifiable-optimisation-line'
            continue
        if got != want_names:
            res['violations'].append(
                ('reported-order', 'results',
                 {'op': op, 'got': got, 'want': want_names,
                  'flag_order': [c['name'] for c in raw]}))
        # extras stay with their criterion: cut-off shown in its line
        for l, (n, e) in zip(r['opt_lines'], crit):
            if n in ('gen', 'gre') and e:
                nums = [int(x) for x in re.findall(r'\d+', l)]
                if e[0] not in nums:
                    res['violations'].append(
                        ('cutoff-not-with-criterion', n,
                         {'line': l, 'cutoff': e[0]}))
    # (3) extras take effect with their own criterion: lexicographic optimum
    if B is None and ctx.F and not any(r.get('fault') for r in rounds):
        kind, r = outcome(tr)
        if kind == 'optimal' and rm.acceptable(ctx.I, r['matching']):
            kv = ctx.W.key_vector(r['matching'], crit)
            if kv != ctx.bests:
                res['violations'].append(
                    ('not-optimal-in-position-order', 'results',
                     {'matching': r['matching'], 'values': kv,
                      'best': ctx.bests, 'order': names}))
    return res


def c16_refuse(sc, tr):
    res = {'violations': [], 'probes': {}, 'nontrivial': True,
           'skipped': None}
    why = sc['refuse']
    res['probes']['refuse:' + why] = 1
    if sc.get('no_file'):
        res['probes']['refuse-with-missing-file'] = 1
    c = tr.calls[0] if tr.calls else None
    if c is None or c['op'] != 'construct':
        res['skipped'] = 'no-construct'
        return res
    opened = [e for e in tr.spy if e[1] == sc.get('file_name', 'inst.txt')]
    if c['ok']:
        res['violations'].append(
            ('invalid-options-accepted', why,
             {'argv': sc['opts'].get('raw_argv')}))
        return res
    e = c['exc']
    if e['type'] != 'SystemExit' or e['code'] != 2:
        res['violations'].append(
            ('refusal-not-usage-error', why,
             {'type': e['type'], 'code': e['code'], 'msg': e['msg'],
              'site': e['site']}))
    if opened:
        res['violations'].append(
            ('instance-read-before-refusal', why, {'spy': opened}))
    if tr.rounds:
        res['violations'].append(
            ('solved-before-refusal', why, {'rounds': len(tr.rounds)}))
    return res


# ---------------------------------------------------------------------------
# C18
# ---------------------------------------------------------------------------
def _bf_lines(text):
    return [l for l in text.split('\n')
            if l.startswith('optimal_') or l.strip() == 'Infeasible']


def c18(ctx, tr):
    res = {'violations': [], 'probes': {}, 'nontrivial': False,
           'skipped': None}
    sc = ctx.sc
    bf = bool(sc['opts'].get('bf'))
    exc = first_exception(tr)
    n_solves = sum(1 for c in tr.calls if c['op'] == 'solve')
    res['probes']['solves:%d' % min(n_solves, 4)] = 1
    res['probes']['bf' if bf else 'lp'] = 1
    if tr.intruders:
        res['probes']['second-solver-object-in-between'] = 1
    # solves in which the back end was made to die: the caller got PuLP's
    # exception; what the getters do until the next solve is not judged
    crash_rounds = set(r_['solve_index'] for r_ in tr.rounds
                       if r_.get('fault') == 'crash')
    crashed = set(c['solve_index'] for c in tr.calls
                  if c['op'] == 'solve' and not c['ok'] and
                  c['solve_index'] in crash_rounds)
    exc = None
    for c in tr.calls:
        if not c['ok'] and c.get('solve_index') not in crashed:
            exc = c
            break
    if crashed:
        res['probes']['solve-crashed-inside-history'] = 1
    if exc is not None:
        e = exc['exc']
        if e['type'] == 'RunTimeout':
            res['skipped'] = 'harness-timeout'
            return res
        res['violations'].append(
            ('exception:' + e['type'], e['site'] or exc['op'],
             {'msg': e['msg'], 'op': exc['op'],
              'after_crashed_solve': bool(
                  crashed and min(crashed) < (exc.get('solve_index') or 0)),
              'history': [c['op'] for c in tr.calls], 'tb': e['tb']}))
        return res
    # getters idempotent inside an epoch
    first = {}
    repeated = 0
    for c in tr.calls:
        if not c['ok'] or c.get('solve_index') in crashed:
            continue
        if c['op'] in ('get_results', 'get_results_short', 'get_results_long',
                       'get_debug'):
            k = (c['solve_index'], c['op'])
            if k in first:
                repeated += 1
                if first[k] != c['text']:
                    res['violations'].append(
                        ('getter-not-idempotent', c['op'],
                         {'epoch': c['solve_index'],
                          'history': [x['op'] for x in tr.calls]}))
            else:
                first[k] = c['text']
    # get_results is get_results_short in LP mode
    res['probes']['repeated-getter-calls'] = int(repeated > 0)
    # every epoch: same status, same criterion values, valid matching
    epochs = sorted(set(c['solve_index'] for c in tr.calls
                        if c['op'] != 'construct' and c.get('solve_index')))
    ref_status = None
    ref_bf = None
    distinct_matchings = set()
    # limit each solve was given; a limit is 'reachable' when it is small
    # enough to bind (the unreachable ones are 1e9 and more)
    limit_of = {}
    for c in tr.calls:
        if c['op'] == 'solve':
            tl = (c.get('kw') or {}).get('timeLimit')
            limit_of[c['solve_index']] = tl
    reachable = dict((e2, tl is not None and float(tl) < 1e8)
                     for e2, tl in limit_of.items())
    cut_epochs = set(r_['solve_index'] for r_ in tr.rounds
                     if r_.get('coherent_tl'))
    epochs = [ep for ep in epochs if ep not in crashed]
    for ep in epochs:
        cut_before = any(e2 < ep for e2 in cut_epochs)
        if any(e2 < ep for e2 in crashed):
            res['probes']['full-solve-after-crashed-solve'] = 1
        texts = [(op, t) for (e2, op), t in first.items()
                 if e2 == ep and op != 'get_debug']
        for op, text in texts:
            if bf:
                lines = _bf_lines(text)
                if ref_bf is None:
                    ref_bf = {}
                if op not in ref_bf:
                    ref_bf[op] = lines
                elif lines != ref_bf[op]:
                    res['violations'].append(
                        ('resolve-changes-bruteforce-result', op,
                         {'epoch': ep, 'first': ref_bf[op], 'now': lines}))
                continue
            r = parse_results(text)
            st = r['status'] if r['timeout'] is None else 'Timeout'
            if reachable.get(ep) and (st == 'Timeout' or
                                      st not in ('Optimal', 'Infeasible')):
                # this solve was given a limit that can bind and it did: a
                # different call, not a repetition of the first one (what a
                # cut-short run may show is C14's business).  The solves
                # around it are judged as ever.
                res['probes']['solve-cut-short-inside-history'] = 1
                continue
            if reachable.get(ep):
                res['probes']['reachable-limit-did-not-bind'] = 1
            elif cut_before and ep > 1:
                res['probes']['full-solve-after-cut-short-solve'] = 1
            if ref_status is None:
                ref_status = st
            elif st != ref_status:
                res['violations'].append(
                    ('resolve-changes-status', op,
                     {'epoch': ep, 'first': ref_status, 'now': st}))
            want = 'Optimal' if ctx.F else 'Infeasible'
            if st != want:
                if ep == 1:
                    # the first solve is C02's business, not a history effect
                    res['skipped'] = 'c02-class:first-solve-status'
                    return res
                continue        # already reported as resolve-changes-status
            if st != 'Optimal':
                continue
            M = r['matching']
            ok_M = M is not None and rm.acceptable(ctx.I, M) and \
                M in ctx.Fset
            kv = ctx.W.key_vector(M, ctx.crit) if ok_M else None
            if ep == 1 and (not ok_M or kv != ctx.bests):
                res['skipped'] = 'c01/c03-class:first-solve-result'
                return res
            if not ok_M:
                res['violations'].append(
                    ('resolve-invalid-matching', op,
                     {'epoch': ep, 'matching': M}))
                continue
            distinct_matchings.add(M)
            if kv != ctx.bests:
                res['violations'].append(
                    ('resolve-changes-criterion-value', op,
                     {'epoch': ep, 'values': kv, 'best': ctx.bests}))
    res['probes']['different-matchings-across-solves'] = int(
        len(distinct_matchings) > 1)
    res['nontrivial'] = n_solves >= 2 or repeated > 0
    return res


# ---------------------------------------------------------------------------
# C06
# ---------------------------------------------------------------------------
def c06(ctx, tr):
    res = {'violations': [], 'probes': {}, 'nontrivial': False,
           'skipped': None, 'extra': {}}
    I = ctx.I
    exc = first_exception(tr)
    byz = list(ctx.sc.get('byz') or [])
    if exc is not None:
        e = exc['exc']
        if e['type'] == 'RunTimeout':
            res['skipped'] = 'harness-timeout'
            return res
        ep = exc.get('solve_index', 0)
        M = tuple(byz[ep - 1]) if byz and 0 < ep <= len(byz) else None
        res['violations'].append(
            ('exception:' + e['type'], e['site'] or exc['op'],
             {'msg': e['msg'], 'op': exc['op'], 'assignment': M,
              'tb': e['tb']}))
        return res
    n_pairs = 0
    n_unstable = 0
    for c in tr.calls:
        if c['op'] == 'check_stability':
            M = tuple(c['kw']['assignment'])
            bp = rm.blocking_pairs(I, M)
            n_pairs += 1
            n_unstable += int(bool(bp))
            res['probes']['direct-check_stability-call'] = 1
            if c.get('solve_index', 0) == 0:
                res['probes']['direct-call-before-first-solve'] = 1
            want = 'bool:%r' % (not bp)
            if c['text'] != want:
                kind = 'check_stability-wrong' if c['text'].startswith(
                    'bool:') else 'check_stability-not-a-boolean'
                res['violations'].append(
                    (kind, 'says-%s-is-%s' % (c['text'], not bp) + (
                        ':' + bp[0][2] if bp else ''),
                     {'matching': M, 'returned': c['text'],
                      'reference': not bp, 'blocking_pairs': bp[:3],
                      'direct': True,
                      'history': [x['op'] for x in tr.calls]}))
            continue
        if c['op'] not in ('get_results', 'get_results_short',
                           'get_results_long'):
            continue
        r = parse_results(c['text'])
        if r['status'] != 'Optimal' or r['matching'] is None:
            continue        # genuinely infeasible fault-free run
        M = r['matching']
        if byz:
            want_M = tuple(byz[c['solve_index'] - 1])
            if tuple(M) != want_M:
                raise_harness('byzantine assignment %r was printed as %r'
                              % (want_M, M))
        if not rm.acceptable(I, M):
            continue
        bp = rm.blocking_pairs(I, M)
        n_pairs += 1
        verdict = 'True' if not bp else 'False'
        if bp:
            n_unstable += 1
            res['probes']['blocking:' + bp[0][2]] = \
                res['probes'].get('blocking:' + bp[0][2], 0) + 1
        pc, lc = rm.counts(I, M)
        if any(lc[k] == 0 and I.luq[k] == 0 for k in range(I.n3)) or \
                any(pc[j] == 0 and I.puq[j] == 0 for j in range(I.n2)):
            res['probes']['full-and-empty-agent'] = 1
        got = r.get('stability_correct')
        if not byz and got != 'True':
            # the corollary: after a (fault-free) run with the stability
            # option the line is always True
            res['violations'].append(
                ('stability_correct-not-True-after-stab-run',
                 'says-%s' % got,
                 {'matching': M, 'printed': got,
                  'reference_for_printed_matching': verdict,
                  'blocking_pairs': bp[:3]}))
        elif got != verdict:
            res['violations'].append(
                ('stability_correct-wrong',
                 'says-%s-is-%s' % (got, verdict) + (
                     ':' + bp[0][2] if bp else ''),
                 {'matching': M, 'printed': got, 'reference': verdict,
                  'blocking_pairs': bp[:3], 'byzantine': bool(byz)}))
    res['nontrivial'] = n_unstable > 0
    res['extra'] = {'instance_assignment_pairs': n_pairs,
                    'unstable_pairs': n_unstable}
    res['probes']['byzantine' if byz else 'fault-free-stab'] = 1
    return res


def raise_harness(msg):
    from world import HarnessError
    raise HarnessError(msg)

LP_ORACLES.update({'C14': c14, 'C18': c18, 'C06': c06})


# ---------------------------------------------------------------------------
# real lane at scale ("big"): instances far beyond enumeration (10-24
# students), real CBC end to end, oracles that need no enumeration
# ---------------------------------------------------------------------------
def _neighbours(I, M):
    """assignments that differ from M in one student's project"""
    for i in range(I.n1):
        for p in [0] + [q for q, _ in I.prefs[i]]:
            if p != M[i]:
                yield M[:i] + (p,) + M[i + 1:]


def big_oracle(prop, ctx, tr, prefix_results=None):
    """C01 validity, C05 blocking pairs, C11 statistics, C03 local optimality
    (a better valid neighbour disproves optimality), C04 'a later criterion
    never worsens an earlier one' (values of the prefix runs)."""
    res = {'violations': [], 'probes': {'big-lane': 1}, 'nontrivial': False,
           'skipped': None}
    I = ctx.I
    kind, r = outcome(tr)
    if kind == 'error':
        e = r['exc']
        if prop == 'C02':
            res['violations'].append(
                ('exception:' + e['type'], e['site'] or r['op'],
                 {'msg': e['msg'], 'op': r['op'], 'tb': e['tb'],
                  'big': True}))
        else:
            res['skipped'] = 'c02-class:error'
        return res
    if kind == 'infeasible' and not any(I.plq) and not any(I.llq) and \
            prop in ('C02', 'C05', 'C09', 'C01', 'C03', 'C04', 'C11'):
        # completeness without enumeration: with all lower quotas zero the
        # empty matching is valid, and a (weakly) stable matching of an
        # SPA-ST instance always exists (break the ties, run SPA-student)
        res['violations'].append(
            ('wrong-infeasible-under-stab' if ctx.stab else
             'wrong-infeasible', 'no-lower-quotas',
             {'big': True, 'stab': ctx.stab, 'pc': ctx.pc}))
        return res
    if kind != 'optimal':
        res['skipped'] = 'big-lane:not-optimal(%s)' % kind
        return res
    M = r['matching']
    res['nontrivial'] = True
    if prop in ('C01', 'C02', 'C09'):
        br = rm.validity_breaches(I, M, ctx.pc)
        if br:
            res['violations'].append(
                ('invalid-matching', _breach_site(br),
                 {'matching': M, 'breaches': br, 'big': True}))
    if not rm.acceptable(I, M) or len(M) != I.n1:
        return res
    if prop == 'C05' and ctx.stab:
        bp = rm.blocking_pairs(I, M)
        if bp and rm.valid(I, M, ctx.pc):
            res['violations'].append(
                ('unstable-matching', bp[0][2],
                 {'matching': M, 'blocking_pairs': bp[:3], 'big': True}))
        if r.get('stability_correct') != ('True' if not bp else 'False'):
            res['probes']['stability_correct-disagrees'] = 1
    if prop == 'C11':
        v = c11(ctx, tr)
        res['violations'] += v['violations']
        res['probes'].update(v['probes'])
    if ((prop == 'C03' and len(ctx.crit) == 1) or
            (prop == 'C05' and ctx.stab and len(ctx.crit) >= 1 and
             ctx.crit[0][0] in ('maxsize', 'minsize'))) and \
            rm.valid(I, M, ctx.pc) and I.n1 <= 300:
        name, extra = ctx.crit[0]
        k0 = rm.key(I, rm.measures(I, M), name, extra)
        for N in _neighbours(I, M):
            if not rm.valid(I, N, ctx.pc):
                continue
            if ctx.stab and not rm.stable(I, N):
                continue
            kn = rm.key(I, rm.measures(I, N), name, extra)
            if kn < k0:
                res['violations'].append(
                    ('non-optimal', name,
                     {'matching': M, 'value': k0, 'better_neighbour': N,
                      'neighbour_value': kn, 'big': True}))
                break
    if prop == 'C04' and prefix_results:
        for j, Mp in enumerate(prefix_results):
            if Mp is None:
                continue
            name, extra = ctx.crit[j]
            kp = rm.key(I, rm.measures(I, Mp), name, extra)
            kf = rm.key(I, rm.measures(I, M), name, extra)
            if kf != kp:
                res['violations'].append(
                    ('non-lex-optimal', name,
                     {'matching': M, 'criterion_index': j, 'value': kf,
                      'value_when_it_was_last': kp,
                      'order': [n for n, _ in ctx.crit], 'big': True}))
                break
    return res
