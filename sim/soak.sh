#!/bin/bash
# thorough tier of every claimed check, one after the other; exit codes logged
cd "$(dirname "$0")/.."
for p in C01 C02 C03 C04 C05 C06 C08 C09 C11 C12 C13 C14 C15 C16 C18; do
  /usr/bin/time -f "$p wall %es" /venv/bin/python sim/check.py $p --tier thorough 2>&1 | grep -E "VIOLATION|KNOWN|HARNESS|NOTE|runs=|OK|wall|signature|detail" | cut -c1-400
  echo "$p exit ${PIPESTATUS[0]}"
done
