"""The simulated world: seams owned by the simulator.

  * MILP back end : pulp.apis.coin_api.COIN_CMD.actualSolve (class level)
  * wall clock    : attribute `datetime` of matchingproblems.solver.solver
  * RNG state     : random.seed / numpy.random.seed
  * file system   : real per-run directory + sys.addaudithook spy

Nothing in /repo is modified; everything else runs real code.
"""
import datetime as _dt
import hashlib
import json
import os
import random
import shutil
import sys
import tempfile

REPO = os.environ.get('VERIF_REPO', '/repo')
if sys.path[0] != REPO:
    sys.path.insert(0, REPO)

import pulp                                    # noqa: E402
from pulp.apis import coin_api                 # noqa: E402

import milp_stub                               # noqa: E402

_REAL_ACTUAL_SOLVE = coin_api.COIN_CMD.actualSolve
_EPOCH = _dt.datetime(2000, 1, 1)

STATUS_CODE = {'Infeasible': pulp.LpStatusInfeasible,
               'Unbounded': pulp.LpStatusUnbounded,
               'Undefined': pulp.LpStatusUndefined,
               'Not Solved': pulp.LpStatusNotSolved}


REAL_CBC_SAFETY_LIMIT = float(os.environ.get('VERIF_CBC_LIMIT', '15'))


class HarnessError(Exception):
    """A defect of the harness / stub, never a property violation."""


# --------------------------------------------------------------------------
# clock
# --------------------------------------------------------------------------
class SimClock(object):
    """Discrete clock in microseconds; every read advances it by a seeded
    epsilon so that successive reads strictly increase."""

    def __init__(self, seed, start_us=10 ** 9):
        self.rng = random.Random(seed)
        self.t = start_us
        self.reads = 0
        self.log = None

    def now(self, tz=None):
        v = self.t
        self.t += self.rng.choice((1, 7, 50, 400, 5000))
        self.reads += 1
        if self.log is not None:
            self.log('clock.read', v)
        return _EPOCH + _dt.timedelta(microseconds=v)

    def advance(self, seconds):
        self.t += int(round(seconds * 1e6))

    def seconds(self):
        return self.t / 1e6


class _DatetimeShim(object):
    """Stands for both the module `datetime` and the class `datetime.datetime`
    so that `datetime.datetime.now()` and `datetime.now()` both read the
    simulated clock."""

    def __init__(self, clock):
        self._clock = clock
        self.datetime = self
        self.timedelta = _dt.timedelta
        self.date = _dt.date
        self.timezone = _dt.timezone

    def now(self, tz=None):
        return self._clock.now(tz)

    def utcnow(self):
        return self._clock.now()

    def today(self):
        return self._clock.now()

    def __call__(self, *a, **k):
        return _dt.datetime(*a, **k)


class _TimeShim(object):
    """Stands for the module `time` should the repository ever read it."""

    def __init__(self, clock):
        self._clock = clock

    def time(self):
        self._clock.now()
        return 946684800.0 + self._clock.t / 1e6

    def monotonic(self):
        self._clock.now()
        return self._clock.t / 1e6

    perf_counter = monotonic
    process_time = monotonic

    def sleep(self, seconds):
        self._clock.advance(seconds)

    def __getattr__(self, name):
        import time as _t
        return getattr(_t, name)


def install_clock(clock):
    """Every module of the solver package that holds a reference to the
    datetime module/class or to the time module gets the simulated one (today
    only matchingproblems.solver.solver reads a clock)."""
    import time as _time
    import matchingproblems.solver.solver  # noqa: F401
    saved = []
    for name, mod in list(sys.modules.items()):
        if mod is None or not name.startswith('matchingproblems.solver'):
            continue
        for attr, val in list(vars(mod).items()):
            if val is _dt or val is _dt.datetime:
                saved.append((mod, attr, val))
                setattr(mod, attr, _DatetimeShim(clock))
            elif val is _time:
                saved.append((mod, attr, val))
                setattr(mod, attr, _TimeShim(clock))

    def undo():
        for mod, attr, val in saved:
            setattr(mod, attr, val)
    return undo


# --------------------------------------------------------------------------
# file-system spy
# --------------------------------------------------------------------------
_SPY = {'installed': False, 'root': None, 'sink': None}


def _audit(event, args):
    root = _SPY['root']
    if root is None:
        return
    try:
        if event == 'open':
            path, mode, flags = args
            if isinstance(path, int):
                return
            path = os.fspath(path)
            if isinstance(path, bytes):
                path = path.decode('utf-8', 'replace')
            ap = os.path.abspath(path)
            if ap.startswith(root):
                write = bool(flags & (os.O_WRONLY | os.O_RDWR | os.O_CREAT |
                                      os.O_TRUNC | os.O_APPEND))
                _SPY['sink'](('open-w' if write else 'open-r',
                              ap[len(root):].lstrip('/')))
        elif event in ('os.mkdir', 'os.remove', 'os.rmdir', 'os.rename'):
            path = os.fspath(args[0])
            if isinstance(path, bytes):
                path = path.decode('utf-8', 'replace')
            ap = os.path.abspath(path)
            if ap.startswith(root):
                _SPY['sink']((event, ap[len(root):].lstrip('/')))
    except Exception:        # the spy must never disturb the system under test
        pass


def spy_start(root, sink):
    if not _SPY['installed']:
        sys.addaudithook(_audit)
        _SPY['installed'] = True
    _SPY['root'] = os.path.abspath(root)
    _SPY['sink'] = sink


def spy_stop():
    _SPY['root'] = None
    _SPY['sink'] = None


def make_run_dir():
    base = '/dev/shm' if os.path.isdir('/dev/shm') and os.access(
        '/dev/shm', os.W_OK) else tempfile.gettempdir()
    return tempfile.mkdtemp(prefix='mpsim-', dir=base)


def remove_run_dir(d):
    shutil.rmtree(d, ignore_errors=True)


# --------------------------------------------------------------------------
# stand-in MILP back end
# --------------------------------------------------------------------------
class SimBackend(object):
    """Behaviour of the party on the other side of prob.solve().

    policy     : how a member of the optimal set is chosen
                 'uniform' | 'first' | 'last' | 'adversarial' | 'real'
    faults     : {round: fault} with fault = dict(kind, persist, values)
                 kinds: 'status:<name>', 'tl-incumbent', 'tl-no-incumbent',
                 'byzantine'
    durations  : seeded solve durations in simulated seconds
    """

    def __init__(self, cfg, clock, log, pairs_provider, prefer=None,
                 xcheck=None, byz_provider=None, keep_sets=True):
        self.cfg = cfg
        self.policy = cfg.get('policy', 'uniform')
        self.rng = random.Random(cfg.get('choice_seed', 0))
        self.faults = dict((int(f['round']), f) for f in cfg.get('faults', []))
        self.clock = clock
        self.drng = random.Random(cfg.get('duration_seed', 0))
        self.durations = list(cfg.get('durations') or [])
        self.log = log
        self.pairs_provider = pairs_provider
        self.prefer = prefer
        self.xcheck = xcheck          # None or dict(rate, rng, stats)
        self.byz_provider = byz_provider
        self.closure_provider = None
        self.keep_sets = keep_sets
        self.round = 0
        self.rounds = []              # per round record (dict)
        self.solve_index = 0          # which Solver.solve() call we are in
        self.time_limit_seen = []
        self.fired = {}
        self.busy = False

    # -- helpers ---------------------------------------------------------
    def _active_fault(self):
        f = self.faults.get(self.round)
        if f is not None:
            return f
        best = None
        for k, g in self.faults.items():
            if g.get('persist') and k < self.round:
                if best is None or k > best[0]:
                    best = (k, g)
        return best[1] if best else None

    def _tl_stop_duration(self, tl):
        """A solver stopped by its time limit returns shortly after it:
        sometimes a fraction of a second, sometimes seconds later."""
        x = self.drng.random()
        if x < 0.5:
            over = self.drng.uniform(0.08, 0.95)
        elif x < 0.8:
            over = self.drng.uniform(1.0, 5.0)
        else:
            over = 0.05 * float(tl) + 2.0
        return float(tl) + over

    def _duration(self, tl):
        if self.durations:
            return self.durations.pop(0)
        return 10 ** self.drng.uniform(-5, -2)

    def _assign(self, lp, C, point):
        vals = dict((v.name, float(point[i])) for i, v in enumerate(C.vs))
        if self.cfg.get('value_noise'):
            # inside any MILP solver's contract (integrality tolerance 1e-6):
            # binary variables at one may come back as 0.9999999 or
            # 1.0000001, zeros as -0.0; general integers stay exact
            # Only the student-project decision variables are touched: an
            # objective variable returned as 2.9999999 would make the
            # repository's freeze constraint cut off the optimum, which no
            # listed property covers (DESIGN.md 2.3, recorded assumption).
            r = random.Random(self.cfg['value_noise'] + self.round)
            projset = set(C.proj)
            # a solver's round-off is usually one-sided within a solve
            ones = [[0.9999999], [1.0000001],
                    [1.0, 0.9999999, 1.0000001, 0.99999999]][
                self.cfg['value_noise'] % 3]
            for i, v in enumerate(C.vs):
                if i in projset and C.lo[i] == 0 and C.hi[i] == 1:
                    if point[i] == 1:
                        vals[v.name] = r.choice(ones)
                    else:
                        vals[v.name] = r.choice([0.0, -0.0])
            # the variable being optimised may also come back a hair off, on
            # the side that keeps the true optimum feasible for the bound the
            # repository adds afterwards (2.9999999 when maximised, 3.0000001
            # when minimised); the other side breaks the unchanged tree and
            # is the recorded assumption of DESIGN.md 2.3
            if len(C.obj) == 1 and r.random() < 0.5:
                i, a = C.obj[0]
                if i not in projset and C.vs[i].cat == 'Integer':
                    direction = -1.0 if (a > 0) == (C.sense < 0) else 1.0
                    vals[C.vs[i].name] = float(point[i]) + direction * 1e-7
        lp.assignVarsVals(vals)

    def _to_M(self, proj, pairs, n1):
        """Projection tuple -> assignment tuple; a student holding two
        projects yields a tuple entry (never equal to any valid assignment)."""
        M = [0] * n1
        for bit, (sid, pid) in zip(proj, pairs):
            if bit:
                if bit != 1:
                    M[sid - 1] = ('x', pid, bit)
                elif M[sid - 1] == 0:
                    M[sid - 1] = pid
                else:
                    cur = M[sid - 1]
                    M[sid - 1] = (tuple(cur) if isinstance(cur, tuple)
                                  else (cur,)) + (pid,)
        return tuple(M)

    @staticmethod
    def _nondefault_solver_options(solver):
        odd = []
        if getattr(solver, 'mip', True) is not True:
            odd.append('mip=%r' % getattr(solver, 'mip', None))
        opts = getattr(solver, 'optionsDict', {}) or {}
        for k in ('gapRel', 'gapAbs', 'maxNodes', 'presolve', 'cuts',
                  'strong', 'warmStart'):
            if opts.get(k) not in (None, False):
                odd.append('%s=%r' % (k, opts.get(k)))
        if getattr(solver, 'options', None):
            odd.append('options=%r' % (solver.options,))
        return odd

    # -- the seam --------------------------------------------------------
    def actual_solve(self, solver, lp, **kw):
        self.busy = True
        try:
            return self._actual_solve(solver, lp, **kw)
        finally:
            self.busy = False

    def _actual_solve(self, solver, lp, **kw):
        self.round += 1
        rnd = self.round
        tl = getattr(solver, 'timeLimit', None)
        self.time_limit_seen.append(tl)
        rec = {'round': rnd, 'solve_index': self.solve_index, 'fault': None,
               'timeLimit': tl}
        self.rounds.append(rec)
        fault = self._active_fault()
        if fault is not None and fault['kind'].startswith('tl-') and \
                tl is None:
            # the repository gave the back end no time limit, so the back end
            # cannot stop on one: the planned fault does not apply
            rec['fault_not_applicable'] = fault['kind']
            self.fired['tl-fault-not-applicable(no limit passed)'] = \
                self.fired.get('tl-fault-not-applicable(no limit passed)',
                               0) + 1
            fault = None
        ce = self.cfg.get('crash_epochs') or {}
        k_crash = ce.get(str(self.solve_index))
        if fault is None and k_crash is not None:
            n_here = sum(1 for r_ in self.rounds
                         if r_['solve_index'] == self.solve_index)
            if n_here == k_crash:
                # the solver process dies at the k-th underlying solve of
                # this Solver.solve() call (C18 histories: the caller gets
                # PuLP's exception and simply solves again)
                fault = {'kind': 'crash'}
                rec['crash_epoch'] = True
        if fault is None and self.cfg.get('coherent_tl') and \
                tl is not None and float(tl) < 1e-3:
            # a back end that is given less time than any solve takes stops
            # on its limit, with or without an incumbent (C18 histories whose
            # solves carry different limits: a cut-short solve in the middle)
            r = random.Random(self.cfg.get('choice_seed', 0) * 31 +
                              self.round)
            fault = {'kind': r.choice(['tl-incumbent', 'tl-no-incumbent']),
                     'values': r.choice(['zeros', 'garbage', 'stale'])}
            rec['coherent_tl'] = True

        if self.policy == 'real' and fault is None:
            return self._real(solver, lp, rec, kw)
        odd = self._nondefault_solver_options(solver)
        if odd and fault is None:
            # the repository asked the back end for something other than a
            # plain exact MIP solve (relaxation, gap, node limit, extra
            # options): the stand-in does not model that, real CBC decides
            rec['solver_options'] = odd
            return self._real(solver, lp, rec, kw)

        ids, pairs, n1, trusted = self.pairs_provider(lp)
        sets_ok = bool(ids) and trusted
        if not sets_ok:
            rec['projection_unavailable'] = True
        if not ids:
            # the Pair variables could not be identified (refactored names):
            # enumerate over every 0/1 variable instead, exact but slower, and
            # offer no FEAS/OPT sets to the oracles for this round
            ids = [id(v) for v in lp.variables()
                   if v.cat == 'Integer' and v.lowBound == 0 and
                   v.upBound == 1]
            pairs = [(0, 0)] * len(ids)
        try:
            C, sols, zb = milp_stub.solve_all(lp, ids, self.rng)
        except milp_stub.StubUnsupported as e:
            rec['unsupported'] = str(e)
            if fault is not None:
                return self._inject_without_enumeration(solver, lp, rec,
                                                        fault, tl, kw)
            return self._real(solver, lp, rec, kw)
        except pulp.PulpSolverError as e:
            # duplicate variable names: let real CBC judge the program; the
            # run reports whatever the real back end does with it
            rec['duplicate_names'] = str(e)
            return self._real(solver, lp, rec, kw)
        if C.proj_missing and sols:
            # a Pair variable that is in no constraint: its value is free, the
            # projection is still exact on the others
            rec['proj_missing'] = len(C.proj_missing)
            pairs = [p for k, p in enumerate(pairs)
                     if k not in set(C.proj_missing)]
        if sets_ok:
            feas = [self._to_M(p, pairs, n1) for p, _, _ in sols]
        else:
            feas = [tuple(p) for p, _, _ in sols]
        opt_i = [k for k, (_, z, _) in enumerate(sols) if z <= zb + 1e-9]
        rec['n_feas'] = len(sols)
        rec['n_opt'] = len(opt_i)
        rec['z'] = None if zb is None else zb * C.sense
        rec['prog'] = hashlib.sha256(
            repr(C.canonical()).encode()).hexdigest()[:16]
        rec['nvars'] = len(C.vs)
        rec['ncons'] = len(C.cons)
        if self.keep_sets and sets_ok:
            rec['feas'] = feas
            rec['opt'] = [feas[k] for k in opt_i]
        genuine = 'Optimal' if sols else 'Infeasible'
        rec['genuine'] = genuine

        if fault is not None:
            return self._inject(solver, lp, rec, fault, C, sols, feas, opt_i,
                                tl)

        self.clock.advance(self._duration(tl))
        if not sols:
            lp.assignVarsVals(dict((v.name, 0.0) for v in C.vs))
            lp.assignStatus(pulp.LpStatusInfeasible,
                            pulp.LpSolutionInfeasible)
            rec['status'] = 'Infeasible'
            self.log('backend.solve', (rnd, rec['prog'], 0, 0, None, None))
            return lp.status
        pick = self._choose(opt_i, feas)
        rec['chosen'] = feas[pick]
        self._assign(lp, C, sols[pick][2])
        lp.assignStatus(pulp.LpStatusOptimal, pulp.LpSolutionOptimal)
        rec['status'] = 'Optimal'
        self.log('backend.solve', (rnd, rec['prog'], len(sols), len(opt_i),
                                   rec['z'], list(map(_plain, feas[pick]))))
        if self.xcheck is not None and \
                self.xcheck['rng'].random() < self.xcheck['rate']:
            self._crosscheck(solver, lp, C, rec, feas, opt_i, pairs, n1, kw)
        return lp.status

    def _choose(self, opt_i, feas):
        if self.policy == 'first':
            return opt_i[0]
        if self.policy == 'last':
            return opt_i[-1]
        if self.policy == 'adversarial' and self.prefer is not None:
            scored = [(self.prefer(feas[k]), -n, k)
                      for n, k in enumerate(opt_i)]
            best = max(s for s, _, _ in scored)
            cands = [k for s, _, k in scored if s == best]
            return self.rng.choice(cands)
        return self.rng.choice(opt_i)

    def _inject(self, solver, lp, rec, fault, C, sols, feas, opt_i, tl):
        kind = fault['kind']
        rec['fault'] = kind
        self.fired[kind] = self.fired.get(kind, 0) + 1
        d = self._duration(tl)
        if kind == 'crash':
            return self._crash(rec, d)
        if kind == 'byzantine':
            M = self.byz_provider()
            ids, pairs, n1, _t = self.pairs_provider(lp)
            want = set((i + 1, p) for i, p in enumerate(M) if p)
            vals = {}
            for v in C.vs:
                vals[v.name] = 0.0
            idpos = dict((i, k) for k, i in enumerate(ids))
            for v in C.vs:
                k = idpos.get(id(v))
                if k is not None and pairs[k] in want:
                    vals[v.name] = 1.0
            # with -pc a project without students may come back as closed
            closures = self.closure_provider() if self.closure_provider \
                else []
            used = set(p for p in M if p)
            names = set(v.name for v in C.vs)
            for var, pid in closures:
                if var.name in names and pid not in used and \
                        self.rng.random() < 0.7:
                    vals[var.name] = 1.0
            lp.assignVarsVals(vals)
            lp.assignStatus(pulp.LpStatusOptimal, pulp.LpSolutionOptimal)
            self.clock.advance(d)
            rec['status'] = 'Optimal'
            rec['chosen'] = tuple(M)
            self.log('backend.fault', (rec['round'], kind, list(M)))
            return lp.status
        if kind == 'tl-incumbent':
            if tl is None:
                raise HarnessError('tl fault without time limit')
            self.clock.advance(max(d, self._tl_stop_duration(tl)))
            if not sols:
                lp.assignVarsVals(dict((v.name, 0.0) for v in C.vs))
                lp.assignStatus(pulp.LpStatusInfeasible,
                                pulp.LpSolutionInfeasible)
                rec['status'] = 'Infeasible'
                rec['fault'] = None
                self.log('backend.solve', (rec['round'], rec['prog'], 0, 0,
                                           None, None))
                return lp.status
            nonopt = [k for k in range(len(sols)) if k not in set(opt_i)]
            pick = self.rng.choice(nonopt) if nonopt and \
                self.rng.random() < 0.8 else self.rng.randrange(len(sols))
            self._assign(lp, C, sols[pick][2])
            lp.assignStatus(pulp.LpStatusOptimal,
                            pulp.LpSolutionIntegerFeasible)
            rec['status'] = 'Optimal'
            rec['chosen'] = feas[pick]
            self.log('backend.fault', (rec['round'], kind,
                                       list(map(_plain, feas[pick]))))
            return lp.status
        if kind == 'tl-no-incumbent':
            if tl is None:
                raise HarnessError('tl fault without time limit')
            self.clock.advance(max(d, self._tl_stop_duration(tl)))
            name = 'Not Solved'
        else:
            self.clock.advance(d)
            name = kind.split(':', 1)[1]
        vm = fault.get('values', 'zeros')
        vs = lp.variables()
        if vm == 'zeros':
            vals = dict((v.name, 0.0) for v in vs)
        elif vm == 'garbage':
            vals = dict((v.name, float(self.rng.randint(0, 2))) for v in vs)
        else:   # stale: whatever the previous round left
            vals = dict((v.name, (v.varValue if v.varValue is not None
                                  else 0.0)) for v in vs)
        lp.assignVarsVals(vals)
        lp.assignStatus(STATUS_CODE[name])
        rec['status'] = name
        self.log('backend.fault', (rec['round'], kind, vm))
        return lp.status

    def _crash(self, rec, d):
        """The solver process dies (killed, out of memory, binary or its
        temporary files gone): PuLP raises PulpSolverError out of
        actualSolve and leaves the problem's status and values as they
        were."""
        self.clock.advance(d)
        rec['status'] = 'Crashed'
        self.log('backend.fault', (rec['round'], 'crash', None))
        raise pulp.PulpSolverError(
            'Pulp: Error while executing cbc (mpsim-injected-crash, round '
            '%d)' % rec['round'])

    def _inject_without_enumeration(self, solver, lp, rec, fault, tl, kw):
        """The program is outside the stand-in's fragment (a continuous
        variable, say): faults are still injected, with real CBC supplying
        the genuine answer / the incumbent where one is needed."""
        kind = fault['kind']
        rec['fault'] = kind
        self.fired[kind] = self.fired.get(kind, 0) + 1
        d = self._duration(tl)
        if kind == 'crash':
            return self._crash(rec, d)
        if kind == 'byzantine':
            M = self.byz_provider()
            ids, pairs, n1, _t = self.pairs_provider(lp)
            want = set((i + 1, p) for i, p in enumerate(M) if p)
            idpos = dict((i, k) for k, i in enumerate(ids))
            vals = {}
            for v in lp.variables():
                k = idpos.get(id(v))
                vals[v.name] = 1.0 if (k is not None and
                                       pairs[k] in want) else 0.0
            lp.assignVarsVals(vals)
            lp.assignStatus(pulp.LpStatusOptimal, pulp.LpSolutionOptimal)
            self.clock.advance(d)
            rec['status'] = 'Optimal'
            rec['chosen'] = tuple(M)
            self.log('backend.fault', (rec['round'], kind, list(M)))
            return lp.status
        if kind == 'tl-incumbent':
            self._real(solver, lp, rec, kw)
            rec['fault'] = kind
            self.clock.advance(max(d, self._tl_stop_duration(tl)))
            if lp.status == pulp.LpStatusOptimal:
                lp.assignStatus(pulp.LpStatusOptimal,
                                pulp.LpSolutionIntegerFeasible)
                rec['status'] = 'Optimal'
            else:
                rec['fault'] = None
            self.log('backend.fault', (rec['round'], kind, 'real-incumbent'))
            return lp.status
        if kind == 'tl-no-incumbent':
            self.clock.advance(max(d, self._tl_stop_duration(tl)))
            name = 'Not Solved'
        else:
            self.clock.advance(d)
            name = kind.split(':', 1)[1]
        vm = fault.get('values', 'zeros')
        vs = lp.variables()
        if vm == 'zeros':
            vals = dict((v.name, 0.0) for v in vs)
        elif vm == 'garbage':
            vals = dict((v.name, float(self.rng.randint(0, 2))) for v in vs)
        else:
            vals = dict((v.name, (v.varValue if v.varValue is not None
                                  else 0.0)) for v in vs)
        lp.assignVarsVals(vals)
        lp.assignStatus(STATUS_CODE[name])
        rec['status'] = name
        self.log('backend.fault', (rec['round'], kind, vm))
        return lp.status

    def _real(self, solver, lp, rec, kw):
        """Real CBC through real PuLP (subprocess, real files in TMPDIR)."""
        self.clock.advance(self._duration(getattr(solver, 'timeLimit', None)))
        seed = self.cfg.get('real_tiebreak_seed')
        saved_obj = None
        if seed and not rec.get('solver_options'):
            # Which optimum real CBC returns is decided here, not by CBC: a
            # seeded perturbation eps * sum r_k x_k over the decision
            # variables with |total| < 0.5 cannot change the optimal value of
            # the (integer) quantity being optimised, but makes every optimal
            # solution a candidate answer.
            ids, _pairs, _n1, _t = self.pairs_provider(lp)
            idset = set(ids)
            pvars = [v for v in lp.variables() if id(v) in idset]
            if pvars:
                r = random.Random(seed + self.round)
                eps = 0.4 / len(pvars)
                saved_obj = lp.objective
                pert = pulp.LpAffineExpression(saved_obj)
                sign = -1.0 if lp.sense == pulp.LpMaximize else 1.0
                for v in pvars:
                    pert += sign * eps * r.uniform(-1, 1) * v
                pert.name = getattr(saved_obj, 'name', None)
                lp.objective = pert
                rec['real_tiebreak'] = True
        # No real solve may outlive the run's wall cap (an orphaned cbc
        # process would keep a core busy for hours): CBC gets a safety limit;
        # a solve that hits it is a run that is not judged.
        user_tl = getattr(solver, 'timeLimit', None)
        safety = REAL_CBC_SAFETY_LIMIT
        capped = user_tl is None or user_tl > safety
        if capped:
            solver.timeLimit = safety
            if isinstance(getattr(solver, 'optionsDict', None), dict):
                solver.optionsDict['timeLimit'] = safety
        import time as _rt
        t_real = _rt.time()
        try:
            st = _REAL_ACTUAL_SOLVE(solver, lp, **kw)
        finally:
            t_real = _rt.time() - t_real
            if saved_obj is not None:
                lp.objective = saved_obj
            if capped:
                solver.timeLimit = user_tl
                if isinstance(getattr(solver, 'optionsDict', None), dict):
                    solver.optionsDict['timeLimit'] = user_tl
        # (the real clock is read here only to classify the real solve; it
        # never enters the event log)
        if capped and (lp.sol_status == pulp.LpSolutionIntegerFeasible or
                       lp.status == pulp.LpStatusNotSolved or
                       t_real >= 0.8 * safety):
            rec['backend_fault'] = 'real-cbc-safety-limit'
            self.fired['real-cbc-safety-limit'] = self.fired.get(
                'real-cbc-safety-limit', 0) + 1
        rec['status'] = pulp.LpStatus[lp.status]
        rec['real'] = True
        if lp.status == pulp.LpStatusOptimal and \
                not rec.get('solver_options') and \
                not rec.get('duplicate_names'):
            # The bundled CBC 2.10.3 occasionally reports Optimal with a
            # point that violates a row ("relaxed row infeasibilities" in its
            # preprocessing; observed 2 times in 277 536 cross-checked
            # solves).  That is the back end breaking its contract, not the
            # repository: the run is recorded and not judged.
            bad = point_violations(lp)
            if bad:
                rec['backend_fault'] = 'real-cbc-infeasible-answer'
                rec['backend_fault_detail'] = bad
                self.fired['real-cbc-infeasible-answer'] = self.fired.get(
                    'real-cbc-infeasible-answer', 0) + 1
        ids, pairs, n1, trusted = self.pairs_provider(lp)
        if lp.status == pulp.LpStatusOptimal and trusted:
            idset = dict((i, k) for k, i in enumerate(ids))
            proj = [0] * len(ids)
            for v in lp.variables():
                k = idset.get(id(v))
                if k is not None and v.varValue is not None:
                    proj[k] = int(round(v.varValue))
            rec['chosen'] = self._to_M(proj, pairs, n1)
            rec['z'] = pulp.value(lp.objective)
        self.log('backend.real', (rec['round'], rec['status']))
        return st

    def _crosscheck(self, solver, lp, C, rec, feas, opt_i, pairs, n1, kw):
        """Re-solve the same program with real CBC; compare status/objective
        and membership of CBC's projection in the stub's optimal set.  The
        stub's values are restored afterwards."""
        st = self.xcheck['stats']
        saved = dict((v.name, v.varValue) for v in lp.variables())
        saved_status = (lp.status, lp.sol_status)
        zstub = pulp.value(lp.objective)
        try:
            _REAL_ACTUAL_SOLVE(solver, lp, **kw)
            real_status = lp.status
            zreal = pulp.value(lp.objective) if real_status == 1 else None
            real_bad = point_violations(lp) if real_status == 1 else []
            ids, _, _, trusted = self.pairs_provider(lp)
            idset = dict((i, k) for k, i in enumerate(ids))
            proj = {}
            for v in lp.variables():
                k = idset.get(id(v))
                if k is not None and v.varValue is not None:
                    proj[k] = int(round(v.varValue))
        finally:
            lp.assignVarsVals(saved)
            lp.assignStatus(*saved_status)
        st['solves'] = st.get('solves', 0) + 1
        bad = None
        if real_bad:
            # CBC's own answer violates the program: a fault of the real back
            # end (see _real), counted, not a disagreement to explain
            st['real_cbc_infeasible_answers'] = st.get(
                'real_cbc_infeasible_answers', 0) + 1
            self.fired['real-cbc-infeasible-answer(xcheck)'] = \
                self.fired.get('real-cbc-infeasible-answer(xcheck)', 0) + 1
            return
        if real_status != pulp.LpStatusOptimal:
            bad = 'status real=%s stub=Optimal' % pulp.LpStatus[real_status]
        elif abs((zreal or 0) - (zstub or 0)) > 1e-6:
            bad = 'objective real=%r stub=%r' % (zreal, zstub)
        elif trusted and ids:
            allids, allpairs, _, _t = self.pairs_provider(lp)
            present = [k for k in range(len(allids)) if k not in
                       set(C.proj_missing)]
            M = self._to_M([proj.get(k, 0) for k in present], pairs, n1)
            if M not in set(feas[k] for k in opt_i):
                bad = 'CBC projection %r not in stub OPT' % (M,)
        if bad:
            st['mismatches'] = st.get('mismatches', 0) + 1
            raise HarnessError('stub/CBC cross-check: ' + bad)


def _plain(x):
    return list(x) if isinstance(x, tuple) else x


def point_violations(lp, limit=3):
    """Constraints, bounds and integrality that the current variable values
    of lp violate (a correct back end reporting Optimal leaves none)."""
    bad = []
    for v in lp.variables():
        x = v.varValue
        if x is None:
            continue
        if v.lowBound is not None and x < v.lowBound - 1e-6:
            bad.append('bound:%s=%r<%r' % (v.name, x, v.lowBound))
        if v.upBound is not None and x > v.upBound + 1e-6:
            bad.append('bound:%s=%r>%r' % (v.name, x, v.upBound))
        if v.cat == 'Integer' and abs(x - round(x)) > 1e-6:
            bad.append('fractional:%s=%r' % (v.name, x))
    for name, c in lp.constraints.items():
        val = c.constant
        for v, a in c.items():
            val += a * (v.varValue or 0.0)
        if (c.sense == 0 and abs(val) > 1e-6) or \
                (c.sense > 0 and val < -1e-6) or \
                (c.sense < 0 and val > 1e-6):
            bad.append('row:%s' % name)
        if len(bad) >= limit:
            break
    return bad


_ACTIVE = {'backend': None}


def _patched_actual_solve(self, lp, **kw):
    be = _ACTIVE['backend']
    if be is None:
        return _REAL_ACTUAL_SOLVE(self, lp, **kw)
    return be.actual_solve(self, lp, **kw)


def install_backend(backend):
    coin_api.COIN_CMD.actualSolve = _patched_actual_solve
    previous = _ACTIVE['backend']
    _ACTIVE['backend'] = backend

    def undo():
        _ACTIVE['backend'] = previous
    return undo


def digest(events):
    return hashlib.sha256(json.dumps(events, sort_keys=True,
                                     default=str).encode()).hexdigest()
