"""Oracles for the generator family (C08, C09, C12, C13, C15)."""
import re

import oracles
import refmodel as rm

PARAM_KEYS = {'n1': 'number_of_agents_type_1', 'n2': 'number_of_agents_type_2',
              'n3': 'number_of_agents_type_3', 'pmin': 'min_pref_list_length',
              'pmax': 'max_pref_list_length', 't1': 'ties_probability_1',
              't2': 'ties_probability_2', 'lq': 'sum_agent2_lower_quotas',
              'uq': 'sum_agent2_upper_quotas', 'skew': 'skew_for_agent_1',
              'llq': 'sum_agent3_lower_quotas', 'lt': 'sum_agent3_targets',
              'luq': 'sum_agent3_upper_quotas'}


def spread(n, total):
    total = int(total)
    return [total // n + (1 if i < total % n else 0) for i in range(n)]


def _new():
    return {'violations': [], 'probes': {}, 'nontrivial': False,
            'skipped': None, 'extra': {}}


def gen_failed(tr):
    c = tr.calls[0] if tr.calls else None
    if c is None or not c['ok']:
        return c
    return None


def _na(p):
    return 3 if p['mp'] == 'spa' else 2


def _groups(lst):
    """[(agent, rank)] -> list of groups of agents"""
    out = {}
    for a, r in lst:
        out.setdefault(r, []).append(a)
    return [out[r] for r in sorted(out)]


# ---------------------------------------------------------------------------
# C08
# ---------------------------------------------------------------------------
def c08(sc, tr):
    res = _new()
    p = sc['params']
    if sc.get('giant'):
        res['probes']['giant-lane(n1>65535)'] = 1
    mp = p['mp']
    fail = gen_failed(tr)
    if fail is not None and sc.get('giant') and \
            fail['exc']['type'] == 'RunTimeout':
        res['skipped'] = 'harness-timeout(giant lane)'
        return res
    if fail is not None:
        e = fail['exc']
        res['violations'].append(
            ('generator-failed:' + e['type'], e['site'] or mp,
             {'msg': e['msg'], 'code': e['code'], 'params': p,
              'stderr': tr.stderr[-300:]}))
        return res
    numinst = p['numinst']
    want_names = ['%d.txt' % k for k in range(numinst)]
    if sorted(tr.listing) != sorted(want_names):
        res['violations'].append(
            ('wrong-file-set', mp, {'listing': tr.listing[:10],
                                    'want': want_names[:10]}))
        return res
    written = sorted(set(rel for kind, rel in tr.gen_spy
                         if kind == 'open-w'))
    out_rel = sc.get('out_rel', 'out')
    stray = [w for w in written if not w.startswith(out_rel + '/')]
    if stray or sorted(w[len(out_rel) + 1:] for w in written
                       if w.startswith(out_rel + '/')) != sorted(want_names):
        res['violations'].append(
            ('unexpected-writes', mp, {'written': written[:10]}))
    n1 = p['n1']
    n2 = p['n2'] if mp != 'sm' else n1
    n3 = p.get('n3') if mp == 'spa' else n2
    na = _na(p)
    twopl = bool(p.get('twopl'))
    t1 = p.get('t1') or 0
    t2 = p.get('t2') or 0
    res['probes']['mp:' + mp] = 1
    res['probes']['two-sided' if twopl else 'one-sided'] = 1
    if p.get('t1') is not None and float(p['t1']) in (0.0, 1.0):
        res['probes']['t1-extreme'] = 1
    if p.get('t2') is not None and float(p['t2']) in (0.0, 1.0) and twopl:
        res['probes']['t2-extreme'] = 1
    if mp == 'spa' and n3 > n2:
        res['probes']['more-lecturers-than-projects'] = 1
    lengths = {}
    for name in want_names:
        text = tr.files[name]

        def bad(cls, detail):
            detail = dict(detail, file=name, params=p)
            res['violations'].append((cls, mp, detail))
        try:
            I = rm.parse(text, na, True)
        except Exception as e:
            bad('unparsable-file', {'error': repr(e), 'text': text[:300]})
            continue
        hdr = text.split('\n')[0].split()
        if [int(x) for x in hdr] != ([n1, n2, n3] if na == 3 else [n1, n2]):
            bad('wrong-header', {'header': hdr})
            continue
        for i, pl in enumerate(I.prefs):
            ids = [a for a, _ in pl]
            lengths[len(ids)] = lengths.get(len(ids), 0) + 1
            if not (p['pmin'] <= len(ids) <= p['pmax']) or \
                    len(set(ids)) != len(ids) or \
                    any(not (1 <= a <= n2) for a in ids):
                bad('bad-first-side-list', {'agent': i + 1, 'list': ids})
            gs = _groups(pl)
            if float(t1) == 0.0 and any(len(g) > 1 for g in gs):
                bad('ties-with-probability-0', {'side': 1, 'agent': i + 1})
            if float(t1) == 1.0 and len(ids) >= 2 and len(gs) != 1:
                bad('not-fully-tied-with-probability-1',
                    {'side': 1, 'agent': i + 1, 'groups': gs})
        # second-side quotas
        if mp == 'sm':
            want_lq, want_uq = [0] * n2, [1] * n2
        else:
            want_lq = spread(n2, p.get('lq') or 0)
            want_uq = spread(n2, p['uq'])
        if I.plq != want_lq or I.puq != want_uq:
            bad('wrong-second-side-quotas',
                {'lower': I.plq, 'upper': I.puq, 'want_lower': want_lq,
                 'want_upper': want_uq})
        if mp == 'spa':
            per = spread(n3, n2)
            want_plec = []
            for k in range(n3):
                want_plec += [k + 1] * per[k]
            if I.plec != want_plec:
                bad('wrong-project-lecturers', {'got': I.plec,
                                                'want': want_plec})
            wl = spread(n3, p.get('llq') or 0)
            wt = spread(n3, p.get('lt') or 0)
            wu = spread(n3, p['luq'])
            if I.llq != wl or I.lt != wt or I.luq != wu:
                bad('wrong-lecturer-quotas',
                    {'lower': I.llq, 'target': I.lt, 'upper': I.luq,
                     'want': [wl, wt, wu]})
            if any(not (a <= b <= c) for a, b, c in zip(I.llq, I.lt, I.luq)):
                bad('lecturer-lower-target-upper-order', {})
        # second-side lists
        for k, lst in enumerate(I.lec_lists):
            if not twopl:
                if lst:
                    bad('second-side-list-in-one-sided-file',
                        {'agent': k + 1, 'list': lst})
                continue
            gs = _groups(lst)
            if float(t2) == 0.0 and any(len(g) > 1 for g in gs):
                bad('ties-with-probability-0', {'side': 2, 'agent': k + 1})
            if float(t2) == 1.0 and len(lst) >= 2 and len(gs) != 1:
                bad('not-fully-tied-with-probability-1',
                    {'side': 2, 'agent': k + 1, 'groups': gs})
        # parameter block
        if not I.trailer or 'instance generation parameters' not in \
                I.trailer[0]:
            bad('parameter-block-missing', {'tail': I.trailer[:2]})
        else:
            kv = {}
            for l in I.trailer[1:]:
                a, _, b = l.partition(':')
                if not _ or a.strip() not in PARAM_KEYS.values() or \
                        a.strip() in kv:
                    bad('text-after-parameter-block', {'line': l[:60]})
                    break
                kv[a.strip()] = b.strip()
            for key, label in PARAM_KEYS.items():
                if p.get(key) is None or (key == 'n3' and mp != 'spa') or \
                        (mp == 'sm' and key in ('n2',)):
                    continue
                if label not in kv:
                    if key in ('n3', 'llq', 'lt', 'luq') and mp != 'spa':
                        continue
                    bad('parameter-block-key-missing', {'key': label})
                    continue
                try:
                    ok = float(kv[label]) == float(p[key])
                except ValueError:
                    ok = False
                if not ok:
                    bad('parameter-block-wrong-value',
                        {'key': label, 'got': kv[label], 'want': p[key]})
    if sc.get('reach'):
        res['probes']['reachability-run'] = 1
        missing = [L for L in range(p['pmin'], p['pmax'] + 1)
                   if not lengths.get(L)]
        if missing and sum(lengths.values()) >= 300:
            res['violations'].append(
                ('list-length-never-occurs', mp,
                 {'missing': missing, 'histogram': lengths,
                  'pmin': p['pmin'], 'pmax': p['pmax'],
                  'lists': sum(lengths.values())}))
    res['nontrivial'] = True
    return res


# ---------------------------------------------------------------------------
# C12
# ---------------------------------------------------------------------------
def c12(sc, tr):
    res = _new()
    p = sc['params']
    if sc.get('giant'):
        res['probes']['giant-lane(n1>65535)'] = 1
    mp = p['mp']
    fail = gen_failed(tr)
    if fail is not None:
        res['skipped'] = 'c08/c15-class:generator-failed'
        return res
    na = _na(p)
    res['probes']['mp:' + mp] = 1
    for name in sorted(tr.files):
        text = tr.files[name]
        try:
            I = rm.parse(text, na, True)
        except Exception as e:
            # a file whose lists cannot be read cannot rank "exactly the
            # agents that find them acceptable"
            res['violations'].append(
                ('second-side-list-mismatch', 'unreadable-file',
                 {'file': name, 'error': repr(e)[:200], 'params': p}))
            continue
        want = [set() for _ in range(I.n3)]
        multi = False
        for i, pl in enumerate(I.prefs):
            lecs = [I.plec[a - 1] for a, _ in pl]
            if len(set(lecs)) < len(lecs):
                multi = True
            for k in lecs:
                want[k - 1].add(i + 1)
        if multi:
            res['probes']['student-ranks-several-projects-of-a-lecturer'] = 1
        if any(not w for w in want):
            res['probes']['second-side-agent-nobody-ranks'] = 1
        if na == 3 and I.n3 > I.n2:
            res['probes']['more-lecturers-than-projects'] = 1
        for k in range(I.n3):
            got = [a for a, _ in I.lec_lists[k]]
            if sorted(got) != sorted(want[k]):
                dup = len(set(got)) != len(got)
                res['violations'].append(
                    ('second-side-list-mismatch',
                     'duplicate' if dup else (
                         'missing' if set(want[k]) - set(got) else 'extra'),
                     {'file': name, 'agent': k + 1, 'list': got,
                      'should_rank': sorted(want[k]), 'params': p}))
        if any(len(w) >= 2 for w in want):
            res['nontrivial'] = True
    return res


# ---------------------------------------------------------------------------
# C13
# ---------------------------------------------------------------------------
def _expected_ranks(n, ties):
    """ranks from the generator's 'tied with the next entry' decisions"""
    ranks = []
    r = 1
    for i in range(n):
        ranks.append(r)
        if i < n - 1 and not ties[i]:
            r += 1
    return ranks


def check_tie_strings(pref, ties, strings):
    """Writer side: balanced, non nested, maximal runs >= 2, order kept."""
    n = len(pref)
    if len(strings) != n:
        return 'length'
    for a, s in zip(pref, strings):
        if s.strip('()') != str(a):
            return 'order-or-content'
    try:
        parsed = rm.parse_list(strings)
    except rm.ParseError as e:
        return 'malformed:%s' % e
    want = _expected_ranks(n, ties)
    if [r for _, r in parsed] != want:
        return 'groups-differ-from-decisions'
    return None


def c13(sc, tr):
    res = _new()
    p = sc['params']
    if sc.get('giant'):
        res['probes']['giant-lane(n1>65535)'] = 1
    mp = p['mp']
    fail = gen_failed(tr)
    if fail is not None:
        res['skipped'] = 'c08/c15-class:generator-failed'
        return res
    na = _na(p)
    twopl = bool(p.get('twopl'))
    n1 = p['n1']
    n2 = p['n2'] if mp != 'sm' else n1
    n_second = (p['n3'] if mp == 'spa' else n2) if twopl else 0
    per = n1 + n_second
    calls = tr.tie_calls
    vectors = set()
    for pref, ties, strings in calls:
        vectors.add((len(pref), tuple(ties)))
        why = check_tie_strings(pref, ties, strings)
        if why:
            res['violations'].append(
                ('tie-writer', why.split(':')[0],
                 {'list': pref, 'decisions': ties, 'strings': strings}))
    res['extra']['tie_vectors'] = set(v for v in vectors if v[0] <= 6)
    res['probes']['lists-observed'] = len(calls)
    files = sorted(tr.files, key=lambda x: int(x.split('.')[0]))
    # file level (independent of the writer spy): every list in the file is
    # well-formed tie text, and the solver reads exactly the ranks the text
    # denotes
    for m, name in enumerate(files):
        text = tr.files[name]
        try:
            I = rm.parse(text, na, True)
        except rm.ParseError as e:
            res['violations'].append(
                ('malformed-tie-text', str(e).split(' ')[0],
                 {'file': name, 'error': str(e), 'text': text[:400]}))
            continue
        except Exception:
            res['skipped'] = 'c08-class:unparsable'
            continue
        sub = tr.solver_sessions[m] if m < len(tr.solver_sessions) else None
        if sub is None or not sub.calls or not sub.calls[0]['ok']:
            continue
        view = sub.model_view
        if not isinstance(view, dict) or 'pairs' not in view:
            continue
        for i in range(I.n1):
            want = [(pid, r) for pid, r in I.prefs[i]]
            got = [(pid, rs) for _, pid, rs, _, _ in view['pairs'][i]] \
                if i < len(view['pairs']) else None
            if got != want:
                res['violations'].append(
                    ('tie-text-vs-reader', 'first-side',
                     {'file': name, 'agent': i + 1, 'text_ranks': want,
                      'read': got}))
            if len(want) >= 2:
                res['nontrivial'] = True
        if twopl:
            for row in view['pairs']:
                for sid, pid, rs, lec, rl in row:
                    if I.lrank.get((lec, sid)) != rl:
                        res['violations'].append(
                            ('tie-text-vs-reader', 'second-side',
                             {'file': name, 'agent': lec, 'student': sid,
                              'text_rank': I.lrank.get((lec, sid)),
                              'read': rl}))
            res['probes']['second-side-file-vs-reader'] = 1
    if not calls:
        res['probes']['writer-spy-blind'] = 1
    if len(calls) != per * len(files):
        res['skipped'] = 'spy-call-count-mismatch'
        return res
    res['probes']['writer-decisions-observed'] = 1
    for m, name in enumerate(files):
        chunk = calls[m * per:(m + 1) * per]
        text = tr.files[name]
        lines = text.split('\n')
        # the spied strings must be the ones in the file
        ok = True
        for i in range(n1):
            toks = lines[1 + i].replace(':', ' ').split()[1:]
            if toks != chunk[i][2]:
                ok = False
        if not ok:
            res['skipped'] = 'spy-strings-not-in-file'
            continue
        sub = tr.solver_sessions[m] if m < len(tr.solver_sessions) else None
        if sub is None:
            continue
        c0 = sub.calls[0] if sub.calls else None
        if c0 is None or not c0['ok']:
            e = c0['exc'] if c0 else {'type': 'none', 'site': None,
                                      'msg': ''}
            res['violations'].append(
                ('reader-failed:' + e['type'], e['site'] or 'construct',
                 {'file': name, 'msg': e['msg'], 'text': text[:300]}))
            continue
        view = sub.model_view
        if not isinstance(view, dict) or 'pairs' not in view:
            res['skipped'] = 'no-model-view'
            continue
        # first side
        for i in range(n1):
            pref, ties, _ = chunk[i]
            want = _expected_ranks(len(pref), ties)
            got = [(pid, rs) for _, pid, rs, _, _ in view['pairs'][i]]
            if got != list(zip(pref, want)):
                res['violations'].append(
                    ('tie-round-trip', 'first-side',
                     {'file': name, 'agent': i + 1, 'written': pref,
                      'decisions': ties, 'expected_ranks': want,
                      'read': got}))
            if len(pref) >= 2:
                res['nontrivial'] = True
        # second side
        for k in range(n_second):
            pref, ties, _ = chunk[n1 + k]
            want = dict(zip(pref, _expected_ranks(len(pref), ties)))
            for row in view['pairs']:
                for sid, pid, rs, lec, rl in row:
                    if lec == k + 1:
                        if want.get(sid) != rl:
                            res['violations'].append(
                                ('tie-round-trip', 'second-side',
                                 {'file': name, 'agent': k + 1,
                                  'written': pref, 'decisions': ties,
                                  'student': sid, 'expected': want.get(sid),
                                  'read': rl}))
            res['probes']['second-side-list-checked'] = 1
    res['probes']['na:%d' % na] = 1
    return res


# ---------------------------------------------------------------------------
# C09
# ---------------------------------------------------------------------------
_PAIR_RE = re.compile(r'\(s(\d+) p(\d+) rs(\d+) l(\d+)(?: rl(\d+))?\)')


def compare_view(I, view, twopl):
    bad = []
    if not isinstance(view, dict) or 'pairs' not in view:
        return [('model-view-unavailable', repr(view)[:100])]
    exp = {'num_students': I.n1, 'num_projects': I.n2,
           'num_lecturers': I.n3, 'proj_lower_quotas': I.plq,
           'proj_upper_quotas': I.puq, 'lec_lower_quotas': I.llq,
           'lec_targets': I.lt, 'lec_upper_quotas': I.luq,
           'proj_lecturers': I.plec}
    for k, v in exp.items():
        if view.get(k) != v:
            bad.append((k, {'loaded': view.get(k), 'file': v}))
    for i in range(I.n1):
        want = []
        for pid, r in I.prefs[i]:
            lec = I.plec[pid - 1]
            want.append((i + 1, pid, r, lec,
                         I.lrank.get((lec, i + 1)) if twopl else None))
        got = [tuple(x) for x in (view['pairs'][i]
                                  if i < len(view['pairs']) else [])]
        if got != want:
            bad.append(('pairs[%d]' % i, {'loaded': got, 'file': want}))
    return bad


def c09(sc, tr):
    res = _new()
    p = sc['params']
    mp = p['mp']
    fail = gen_failed(tr)
    if fail is not None:
        e = fail['exc']
        res['violations'].append(
            ('generator-failed:' + e['type'], e['site'] or mp,
             {'msg': e['msg'], 'params': p}))
        return res
    res['probes']['mp:' + mp] = 1
    res['nontrivial'] = True
    for sess, sub in zip(sc['sessions'], tr.solver_sessions):
        text = sub.inst_text
        name = sess['file']
        opts = sess.get('opts', {})
        mode = 'bf' if opts.get('bf') else 'lp'
        res['probes']['session:' + mode] = \
            res['probes'].get('session:' + mode, 0) + 1
        if any(r.get('backend_fault') for r in sub.rounds):
            res['probes']['real-backend-fault'] = 1
            continue
        exc = oracles.first_exception(sub)
        if exc is not None:
            e = exc['exc']
            res['violations'].append(
                ('solver-failed:' + e['type'],
                 e['site'] or exc['op'],
                 {'file': name, 'op': exc['op'], 'msg': e['msg'],
                  'mode': mode, 'params': p, 'text': (text or '')[:400],
                  'tb': e['tb']}))
            continue
        try:
            like = {'na': sess['na'], 'twopl': sess['twopl'], 'opts': opts,
                    'inst_text': text}
            ctx = oracles.LPContext(like, inst_text=text)
        except Exception as e:
            res['skipped'] = 'c08-class:reference-cannot-parse'
            continue
        I = ctx.I
        for what, d in compare_view(I, sub.model_view, sess['twopl']):
            res['violations'].append(
                ('loaded-model-differs', what.split('[')[0],
                 dict(d, file=name, what=what, text=text[:400])))
        dbg = oracles.last_text(sub, 'get_debug')
        if dbg is not None and 'Model instance information' in dbg:
            block = dbg.split('Model instance information', 1)[1]
            got = [(int(a), int(b), int(c), int(d), int(e) if e else None)
                   for a, b, c, d, e in _PAIR_RE.findall(block)]
            want = []
            for i in range(I.n1):
                for pid, r in I.prefs[i]:
                    lec = I.plec[pid - 1]
                    want.append((i + 1, pid, r, lec,
                                 I.lrank.get((lec, i + 1))
                                 if sess['twopl'] else None))
            if got != want:
                res['violations'].append(
                    ('debug-block-differs', 'get_debug',
                     {'file': name, 'got': got[:8], 'want': want[:8]}))
        if mode == 'lp' and sess.get('big'):
            res['probes']['big-lane'] = 1
            for pid in ('C01', 'C05', 'C11'):
                v = oracles.big_oracle(pid, ctx, sub)
                for cls, site, d in v['violations']:
                    res['violations'].append(
                        ('lp:' + cls, site, dict(d, file=name)))
        elif mode == 'lp':
            for fn in (oracles.c02, oracles.c01, oracles.c05):
                v = fn(ctx, sub)
                for cls, site, d in v['violations']:
                    res['violations'].append(
                        ('lp:' + cls, site, dict(d, file=name,
                                                 text=text[:400])))
            res['probes']['lp-infeasible' if not ctx.F else
                          'lp-feasible'] = 1
            if opts.get('stab'):
                res['probes']['lp-stab'] = 1
        else:
            out = oracles.last_text(sub, 'get_results') or ''
            exp = rm.brute_force_expect(ctx.W, bool(opts.get('pc')))
            inf = any(l.strip() == 'Infeasible' for l in out.split('\n'))
            if exp is None:
                res['probes']['bf-infeasible'] = 1
                if not inf:
                    res['violations'].append(
                        ('bf:reported-feasible-on-infeasible', 'bf',
                         {'file': name, 'text': text[:400]}))
                continue
            if inf:
                res['violations'].append(
                    ('bf:wrong-infeasible', 'bf',
                     {'file': name, 'text': text[:400]}))
                continue
            for k, want in exp.items():
                line = oracles._line(out, k)
                if line is None:
                    res['violations'].append(
                        ('bf:statistic-missing', k, {'file': name}))
                    continue
                nums = [int(x) for x in re.findall(r'-?\d+', line)]
                if isinstance(want, tuple):
                    ok = tuple(nums) == want
                elif isinstance(want, list):
                    ok = nums == want
                else:
                    ok = nums == [want]
                if not ok:
                    res['violations'].append(
                        ('bf:wrong-statistic', k,
                         {'file': name, 'printed': line, 'expected': want,
                          'pc': bool(opts.get('pc')), 'text': text[:400]}))
    return res


# ---------------------------------------------------------------------------
# C15
# ---------------------------------------------------------------------------
def c15(sc, tr):
    res = _new()
    p = sc['params']
    mp = p.get('mp') or 'none'
    c = tr.calls[0]
    wrote = [(k, rel) for k, rel in tr.gen_spy
             if k in ('open-w', 'os.mkdir')]
    if sc['expect'] == 'accept':
        res['probes']['accept:' + mp] = 1
        res['nontrivial'] = True
        if not c['ok']:
            e = c['exc']
            res['violations'].append(
                ('legal-arguments-rejected:' + e['type'], e['site'] or mp,
                 {'msg': e['msg'], 'code': e['code'], 'params': p,
                  'stderr': tr.stderr[-300:]}))
            return res
        want = ['%d.txt' % k for k in range(p['numinst'])]
        if sorted(tr.listing) != sorted(want) or \
                any(not tr.files[n] for n in want):
            res['violations'].append(
                ('legal-arguments-no-instances', mp,
                 {'listing': tr.listing, 'want': want}))
        return res
    label = sc['perturbation']
    res['probes']['reject:' + label.split(':')[0]] = 1
    res['extra']['perturbation_labels'] = set([mp + '/' + label])
    res['nontrivial'] = True
    if c['ok']:
        res['violations'].append(
            ('invalid-arguments-accepted', label.split('=')[0] if
             label.startswith('bound:') else label,
             {'params': p, 'files': tr.listing}))
    else:
        e = c['exc']
        if e['type'] != 'SystemExit' or e['code'] != 2:
            res['violations'].append(
                ('rejection-not-usage-error:' + e['type'],
                 e['site'] or label,
                 {'msg': e['msg'], 'code': e['code'], 'params': p,
                  'perturbation': label}))
        elif 'usage' not in tr.stderr.lower():
            res['violations'].append(
                ('no-usage-text', label, {'stderr': tr.stderr[-200:]}))
    if wrote or tr.outdir_exists or tr.top_listing:
        res['violations'].append(
            ('wrote-before-rejecting', label,
             {'spy': wrote[:5], 'outdir_exists': tr.outdir_exists,
              'listing': tr.top_listing}))
    return res
