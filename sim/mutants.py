#!/venv/bin/python
"""Sensitivity self-test: hand-made mutants of /repo that compile and pass the
35 tests; each must be caught by the check of the property it breaks.

Works on a scratch copy of /repo under /dev/shm (or $TMPDIR), removed
afterwards.  Results go to /verif/sensitivity.json (a record, not evidence).
Also used to run the checks against the kept sub-agent changes in
/verif/seeded/<id>/patch.diff:   mutants.py --seeded
"""
import argparse
import json
import os
import shutil
import subprocess
import sys
import tempfile
import time

HERE = os.path.dirname(os.path.abspath(__file__))
VERIF = os.path.dirname(HERE)
REPO = '/repo'
PY = sys.executable
SCALE = 1.0
FAST = False

LP = 'matchingproblems/solver/lp_solver.py'
MODEL = 'matchingproblems/solver/model.py'
FIO = 'matchingproblems/solver/fileIO.py'
OPT = 'matchingproblems/solver/options_parser.py'
SOLV = 'matchingproblems/solver/solver.py'
GSH = 'matchingproblems/generator/generator_shared.py'
GSPA = 'matchingproblems/generator/generator_spa.py'
GHR = 'matchingproblems/generator/generator_ha_sm_hr.py'
IOP = 'matchingproblems/generator/instance_options_parser.py'
GEN = 'matchingproblems/generator/generator.py'

# (name, [properties expected to catch it], file, old, new)
MUTANTS = [
 ('student-limit-2', ['C01'], LP,
  'lpSum([pair.lp_var for pair in pairs_row]) <= 1, \n                "st_limit_{}"',
  'lpSum([pair.lp_var for pair in pairs_row]) <= 2, \n                "st_limit_{}"'),
 ('lecturer-uq-dropped', ['C01'], LP,
  '                    <= self.model.lec_upper_quotas[lec_index]), ',
  '                    <= self.model.lec_upper_quotas[lec_index] + self.model.num_students), '),
 ('project-lq-uses-uq-minus', ['C01', 'C02'], LP,
  'self.prob += (proj_vars >= lq, "proj_lq_{}".format(proj_index))',
  'self.prob += (proj_vars >= min(lq, 1), "proj_lq_{}".format(proj_index))'),
 ('closure-uq-term-dropped', ['C01'], LP,
  '                pc_uq_exp += self.model.project_closures[proj_index] * uq\n',
  '                pc_uq_exp += self.model.project_closures[proj_index] * 0\n'),
 ('closure-lq-wrong-coef', ['C01', 'C02'], LP,
  '                pc_lq_exp += self.model.project_closures[proj_index] * lq\n',
  '                pc_lq_exp += self.model.project_closures[proj_index] * max(lq - 1, 0)\n'),
 ('freeze-max-dropped', ['C04'], LP,
  '            self.prob += objective_function >= objective_function.varValue\n',
  '            pass\n'),
 ('freeze-min-wrong-sense', ['C04'], LP,
  '            self.prob += objective_function <= objective_function.varValue\n',
  '            self.prob += objective_function >= objective_function.varValue\n'),
 ('generous-range-off-by-one', ['C03'], LP,
  'max(0, up_to_postition_inclusive - 1), -1):',
  'max(0, up_to_postition_inclusive), -1):'),
 ('greedy-range-off-by-one', ['C03'], LP,
  'range(1, min(up_to_postition_inclusive + 1, len(self.model.rank_lists) + 1)):',
  'range(1, min(up_to_postition_inclusive, len(self.model.rank_lists)) + (1 if len(additional_arguments) < 1 else 0)):'),
 ('stab-sums-strict', ['C05'], LP,
  'if (lec_pair.rank_lecturer <= aim_rank and ',
  'if (lec_pair.rank_lecturer < aim_rank and '),
 ('stab-student-not-excluded', ['C05'], LP,
  '                        not lec_pair.studentID == pair.studentID):',
  '                        True):'),
 ('stab-wants-to-move-strict', ['C05'], LP,
  'while current_rank <= aim_rank and index < st_pref_length:',
  'while current_rank < aim_rank and index < st_pref_length:'),
 ('stab-beta-uses-lecturer-quota', ['C05'], LP,
  'neg_p_uq = -1 * self.model.proj_upper_quotas[pair.project_index]',
  'neg_p_uq = -1 * min(self.model.proj_upper_quotas[pair.project_index], self.model.lec_upper_quotas[pair.lecturer_index])'),
 ('mincost-uses-lecturer-rank', ['C03'], LP,
  '            sum_costs_exp += pair.lp_var * pair.rank_student * student_multiplier\n            # May not exist in the case if single sided preference lists.\n            if (hasattr(pair, \'rank_lecturer\')):\n              sum_costs_exp += pair.lp_var * pair.rank_lecturer * lecturer_multiplier',
  '            sum_costs_exp += pair.lp_var * (pair.rank_lecturer if hasattr(pair, \'rank_lecturer\') else pair.rank_student) * student_multiplier\n            # May not exist in the case if single sided preference lists.\n            if (hasattr(pair, \'rank_lecturer\')):\n              sum_costs_exp += pair.lp_var * pair.rank_lecturer * lecturer_multiplier'),
 ('minsqcost-not-squared', ['C03'], LP,
  'sum_costs_exp += pair.lp_var * pair.rank_student**2 * student_multiplier',
  'sum_costs_exp += pair.lp_var * pair.rank_student * student_multiplier'),
 ('mincostlsb-default-multiplier-0', ['C03'], LP,
  "lecturer_multiplier = 1 if len(cost_multipliers) < 2 else cost_multipliers[1]\n        self.info_string += '- optimisation: minimising costs with",
  "lecturer_multiplier = 0 if len(cost_multipliers) < 2 else cost_multipliers[1]\n        self.info_string += '- optimisation: minimising costs with"),
 ('lmb-bound-too-small', ['C02'], LP,
  '            upBound = self.model.get_max_lec_upper_quota(),',
  '            upBound = max(self.model.get_max_lec_upper_quota() - 1, 0),'),
 ('maxsize-bound-too-small', ['C02', 'C03'], LP,
  '                "obj_maxsize", \n                lowBound = 0, \n                upBound = self.model.num_students, ',
  '                "obj_maxsize", \n                lowBound = 0, \n                upBound = self.model.num_projects, '),
 ('no-early-exit', ['C14', 'C16'], LP,
  '            # Exit early if one of the optimisations is not solved.\n            if not LpStatus[self.prob.status] == self.model.OPTIMAL_PULP_STATUS:\n                return None',
  '            # Exit early if one of the optimisations is not solved.\n            if False:\n                return None'),
 ('checker-3b-same-lecturer-dropped', ['C06'], MODEL,
  '((not assigned_pair_i == None and assigned_pair_i.lecturer_index == pair.lecturer_index) or',
  '((False) or'),
 ('checker-3c-weak', ['C06'], MODEL,
  '                    pair.rank_lecturer < worst_rank_projects[pair.project_index]):',
  '                    pair.rank_lecturer <= worst_rank_projects[pair.project_index]):'),
 ('checker-student-weak-preference', ['C06'], MODEL,
  'elif pair.rank_student < assigned_pair_i.rank_student:',
  'elif pair.rank_student <= assigned_pair_i.rank_student and pair is not assigned_pair_i:'),
 ('cost-sq-lecturer-not-squared', ['C11'], MODEL,
  'cost_sq_lec += pair.rank_lecturer * pair.rank_lecturer',
  'cost_sq_lec += pair.rank_lecturer'),
 ('long-listing-project-capacity', ['C11'], MODEL,
  "str(self.proj_upper_quotas[j]) + '\\n')",
  "str(self.lec_upper_quotas[self.proj_lecturers[j] - 1]) + '\\n')"),
 ('long-listing-lecturer-target', ['C11'], MODEL,
  "str(self.lec_targets[k]) + ')\\n')",
  "str(self.lec_lower_quotas[k]) + ')\\n')"),
 ('degree-counts-unmatched', ['C11'], MODEL,
  '        max_matched_rank = 0\n        for pair in pair_assignments:',
  '        max_matched_rank = 0 if pair_assignments else self._get_max_rank() * 0 + (1 if self.num_students > 3 else 0)\n        for pair in pair_assignments:'),
 ('timeout-guard-removed', ['C14'], MODEL,
  'if self.pulp_status == self.NOTSOLVED_PULP_STATUS or total_s > self.time_limit: ',
  'if self.pulp_status == self.NOTSOLVED_PULP_STATUS: '),
 ('timeout-guard-uses-solve-time', ['C14'], MODEL,
  'if self.pulp_status == self.NOTSOLVED_PULP_STATUS or total_s > self.time_limit: ',
  'if self.pulp_status == self.NOTSOLVED_PULP_STATUS or solve_s > self.time_limit * 2: '),
 ('results-cached', ['C18'], MODEL,
  '        # Header.\n        start_time_string = self.time_start.strftime("%d %b %Y, %X %Z")\n        results = (\'# Results for the run conducted on \' \n            + start_time_string + \'\\n\\n\')\n\n        # Constraints and optimisations.',
  '        # Header.\n        if getattr(self, \'_cache\', None) is not None and self._cache[0] == (short_or_long, self.time_after_solve): return self._cache[1] + \' \'\n        start_time_string = self.time_start.strftime("%d %b %Y, %X %Z")\n        results = (\'# Results for the run conducted on \' \n            + start_time_string + \'\\n\\n\')\n        self._cache = ((short_or_long, self.time_after_solve), results)\n\n        # Constraints and optimisations.'),
 ('reader-rank-inside-ties', ['C13', 'C09'], FIO,
  "            simp_ranks.append(rank)\n            if not in_tie:\n                rank+=1",
  "            simp_ranks.append(rank)\n            if not in_tie or len(simp_ranks) > 3:\n                rank+=1"),
 ('two-agent-target-lower', ['C09', 'C11'], FIO,
  'model.lec_targets.append(int(line_split[2]))\n                    model.lec_upper_quotas.append(int(line_split[2]))',
  'model.lec_targets.append(int(line_split[1]))\n                    model.lec_upper_quotas.append(int(line_split[2]))'),
 ('range-check-removed', ['C16'], OPT,
  'if ordering < 1 or ordering > len(opts):',
  'if ordering < -len(opts) or ordering > len(opts):'),
 ('duplicate-check-removed', ['C16'], OPT,
  'if not len(ordered_opts) == count:',
  'if False:'),
 ('stab-check-after-reading', ['C16'], SOLV,
  '        self.options_parser.parse(args)\n        self.model = import_model(',
  '        import sys as _s, io as _io\n        _e = None\n        try:\n            self.options_parser.parse(args)\n        except SystemExit as e:\n            _e = e\n            if self.options_parser.__dict__.get(\'filename\') is None: raise\n        self.model = import_model(') ,
 ('pmax-unreachable', ['C08'], GSH,
  'minpreflistlength, maxpreflistlength + 1)',
  'minpreflistlength, max(maxpreflistlength, minpreflistlength + 1))'),
 ('quota-remainder-last', ['C08'], GSH,
  '        if i < remainder:',
  '        if i >= n - remainder:'),
 ('tie-writer-closes-early', ['C13'], GSH,
  "        elif i == len(pref_list) - 1 and in_tie:\n            string_pref.append(str(pref_list[i]) + ')')",
  "        elif i == len(pref_list) - 1 and in_tie:\n            string_pref.append(str(pref_list[i]) + ')')\n        elif in_tie and i >= 4:\n            string_pref.append(str(pref_list[i]) + ')')\n            in_tie = False"),
 ('lecturer-list-duplicates', ['C12'], GSPA,
  '                ranked_lecs[lec - 1] = True\n            student_lec_list = []\n            for lec_index, lec_present in enumerate(ranked_lecs):\n                if lec_present:\n                    student_lec_list.append(lec_index + 1)',
  '                ranked_lecs[lec - 1] += 1\n            student_lec_list = []\n            for lec_index, lec_present in enumerate(ranked_lecs):\n                if lec_present:\n                    student_lec_list.extend([lec_index + 1] * (2 if lec_present > 2 else 1))'),
 ('bound-check-removed-pmax', ['C15'], IOP,
  '        if args.maxpreflistlength > args.n2:',
  '        if args.maxpreflistlength > args.n2 + 1:'),
 ('bound-check-removed-target', ['C15'], IOP,
  '            args.lecturerlowerquotas > args.lecturertargets):',
  '            args.lecturerlowerquotas > args.lecturertargets + 1):'),
 ('banned-t2-not-checked', ['C15'], IOP,
  "                (args.ties2, 'ties2'),\n",
  ""),
 ('mkdir-before-validation', ['C15'], IOP,
  '        args = parser.parse_args(arguments)\n        matching_problem = self.get_matching_problem(args)',
  '        args = parser.parse_args(arguments)\n        import os as _os\n        if args.numberinstances > 2 and not _os.path.exists(args.outputdirectory): _os.makedirs(args.outputdirectory)\n        matching_problem = self.get_matching_problem(args)'),
 ('spa-project-line-no-space', ['C09'], GSPA,
  'str(lower_quotas[y]) + ": " + str(upper_quotas[y]) + ": " +\n                str(project_lecturers[y])',
  'str(lower_quotas[y]) + ": " + str(upper_quotas[y]) + (": " if upper_quotas[y] < 3 else ":") +\n                str(project_lecturers[y])'),
]


# harmless refactors: every check must stay quiet on them (false-alarm test).
# (name, [(file, old, new, count or None)])
HARMLESS = [
 ('rename-lp_var-and-variable-names', [
   ('matchingproblems/solver/*.py+test/*.py', 'lp_var', 'x_var', None),
   (MODEL, "var_name = '(' + str(self.studentID) + ',' + str(self.projectID) + ')'",
    "var_name = 'x_' + str(self.studentID) + '_' + str(self.projectID)", 1)]),
 ('from-datetime-import-datetime', [
   (SOLV, 'import datetime\n', 'from datetime import datetime\n', 1),
   (SOLV, 'datetime.datetime.now()', 'datetime.now()', None)]),
 ('generator-pathlib-and-exist_ok', [
   (GHR, "        if not os.path.exists(args.outputdirectory):\n            os.makedirs(args.outputdirectory)\n",
    "        os.makedirs(args.outputdirectory, exist_ok=True)\n", 1),
   (GHR, "            f = open(args.outputdirectory + '/' + str(instance_number) + \n            '.txt', 'w')\n            f.write(instance)\n            f.close()",
    "            import pathlib\n            pathlib.Path(args.outputdirectory, str(instance_number) + '.txt').write_text(instance)", 1),
   (GSPA, "        if not os.path.exists(args.outputdirectory):\n            os.makedirs(args.outputdirectory)\n",
    "        os.makedirs(args.outputdirectory, exist_ok=True)\n", 1)]),
 ('results-extra-comment-lines-and-spacing', [
   (MODEL, "        results += '# solver status\\n'\n", "        results += '# solver status\\n# (status of the last optimisation)\\n'\n", 1),
   (MODEL, "        results += ('matching: ' + self._get_matching_string(pair_assignments) +", "        results += ('matching:  ' + self._get_matching_string(pair_assignments) +", 1),
   (MODEL, "        results += ('size: ' + str(", "        results += ('size:   ' + str(", 1)]),
 ('tighter-but-sufficient-maxsize-bound', [
   (LP, '                "obj_maxsize", \n                lowBound = 0, \n                upBound = self.model.num_students, ',
    '                "obj_maxsize", \n                lowBound = 0, \n                upBound = min(self.model.num_students, sum(self.model.proj_upper_quotas)), ', 1)]),
]


def apply_harmless(d, edits):
    import glob
    for rel, old, new, count in edits:
        paths = []
        for part in rel.split('+'):
            paths += glob.glob(os.path.join(d, part))
        total = 0
        for path in paths:
            s = open(path).read()
            total += s.count(old)
            open(path, 'w').write(s.replace(old, new))
        if count is not None and total != count:
            return '%s: pattern occurs %d times' % (rel, total)
        if total == 0:
            return '%s: pattern not found' % rel
    return None


def make_scratch():
    base = '/dev/shm' if os.path.isdir('/dev/shm') else tempfile.gettempdir()
    d = tempfile.mkdtemp(prefix='mpmut-', dir=base)
    for name in ('matchingproblems', 'test', 'setup.py', 'run_solver.py'):
        src = os.path.join(REPO, name)
        dst = os.path.join(d, name)
        if os.path.isdir(src):
            shutil.copytree(src, dst, ignore=shutil.ignore_patterns(
                '__pycache__'))
        else:
            shutil.copy(src, dst)
    return d


def run_tests(d):
    env = dict(os.environ)
    env['PYTHONDONTWRITEBYTECODE'] = '1'
    p = subprocess.run([PY, '-m', 'pytest', '-q', '-p', 'no:cacheprovider',
                        '-x'], cwd=d, env=env, capture_output=True,
                       text=True, timeout=600)
    tail = (p.stdout + p.stderr).strip().split('\n')[-1]
    return p.returncode == 0, tail


def run_check(d, prop, runs, out):
    env = dict(os.environ)
    env['VERIF_REPO'] = d
    env['VERIF_OUT'] = out
    env['PYTHONDONTWRITEBYTECODE'] = '1'
    if SCALE != 1.0:
        env['VERIF_SCALE'] = str(SCALE)
    if SCALE != 1.0 or FAST:
        env['VERIF_FAST_REPORT'] = '1'
    t0 = time.time()
    cmd = [PY, os.path.join(HERE, 'check.py'), prop, '--tier', 'quick']
    if runs:
        cmd += ['--runs', str(runs)]
    p = subprocess.run(cmd, env=env, capture_output=True, text=True,
                       timeout=3600)
    sigs = [l.strip() for l in p.stdout.split('\n')
            if l.strip().startswith('signature=')]
    return p.returncode, sigs, time.time() - t0, p.stdout[-1500:]


def apply_mutant(d, m):
    name, props_, rel, old, new = m
    path = os.path.join(d, rel)
    s = open(path).read()
    if s.count(old) != 1:
        return 'pattern occurs %d times' % s.count(old)
    open(path, 'w').write(s.replace(old, new))
    return None


def main():
    ap = argparse.ArgumentParser()
    ap.add_argument('--only', default='')
    ap.add_argument('--props', default='',
                    help='with --all-props / --refactors: only these checks')
    ap.add_argument('--json-out', default='',
                    help='with --only: write the results to this file')
    ap.add_argument('--runs', type=int, default=0)
    ap.add_argument('--fast', action='store_true',
                    help='report violations without minimising / replaying')
    ap.add_argument('--scale', type=float, default=1.0,
                    help='fraction of each quick budget (matrix runs)')
    ap.add_argument('--seeded', action='store_true',
                    help='run against /verif/seeded/*/patch.diff instead')
    ap.add_argument('--refactors', action='store_true',
                    help='behaviour-preserving refactorings written by '
                         'sub-agents (/verif/refactors): every check must '
                         'stay quiet')
    ap.add_argument('--harmless', action='store_true',
                    help='harmless refactors: every check must stay quiet')
    ap.add_argument('--all-props', action='store_true',
                    help='run every check against each mutant')
    a = ap.parse_args()
    global SCALE, FAST
    SCALE = a.scale
    FAST = a.fast
    import props
    results = []
    items = []
    if a.seeded:
        root = os.path.join(VERIF, 'seeded')
        for sid in sorted(os.listdir(root)):
            meta = os.path.join(root, sid, 'meta.json')
            if os.path.exists(meta):
                mj = json.load(open(meta))
                items.append((sid, mj.get('caught_by_expected',
                                          [mj['property']]),
                              os.path.join(root, sid, 'patch.diff')))
    elif a.refactors:
        root = os.path.join(VERIF, 'refactors')
        for sid in sorted(os.listdir(root)):
            if os.path.exists(os.path.join(root, sid, 'patch.diff')):
                items.append((sid, [], os.path.join(root, sid, 'patch.diff')))
        a.all_props = True
        a.seeded = True         # apply with git apply
    elif a.harmless:
        items = [(n, [], e) for n, e in HARMLESS]
        a.all_props = True
    else:
        items = MUTANTS
    for m in items:
        name = m[0]
        if a.only and name not in a.only.split(','):
            continue
        d = make_scratch()
        out = tempfile.mkdtemp(prefix='mpmut-out-', dir=os.path.dirname(d))
        try:
            if a.seeded:
                p = subprocess.run(['git', 'apply', '--unsafe-paths',
                                    '--directory=' + d, m[2]],
                                   capture_output=True, text=True, cwd='/')
                err = p.stderr.strip() if p.returncode else None
            elif a.harmless:
                err = apply_harmless(d, m[2])
            else:
                err = apply_mutant(d, m)
            if err:
                print('%-36s NOT APPLIED: %s' % (name, err))
                results.append({'mutant': name, 'applied': False,
                                'error': err})
                continue
            ok, tail = run_tests(d)
            rec = {'mutant': name, 'applied': True, 'tests_pass': ok,
                   'tests': tail, 'expected': m[1], 'checks': {}}
            targets = sorted(props.PROPS) if a.all_props else m[1]
            if a.props and a.all_props:
                targets = [t for t in targets if t in a.props.split(',')]
            for prop in targets:
                rc, sigs, wall, tail_out = run_check(d, prop, a.runs, out)
                rec['checks'][prop] = {'exit': rc, 'signatures': sigs[:6],
                                       'wall_s': round(wall, 1)}
                if rc not in (0, 1):
                    rec['checks'][prop]['tail'] = tail_out[-600:]
            caught = [p_ for p_, r in rec['checks'].items()
                      if r['exit'] == 1]
            rec['caught_by'] = caught
            print('%-36s tests=%s caught_by=%s %s' % (
                name, 'pass' if ok else 'FAIL(' + tail + ')', caught,
                {p_: r['exit'] for p_, r in rec['checks'].items()}))
            results.append(rec)
        finally:
            shutil.rmtree(d, ignore_errors=True)
            shutil.rmtree(out, ignore_errors=True)
    if a.refactors:
        alarms = [(r['mutant'], p_, c['exit']) for r in results
                  for p_, c in r.get('checks', {}).items() if c['exit'] != 0]
        print('refactorings: %d, alarms: %s' % (len(results), alarms))
        if a.json_out:
            with open(a.json_out, 'w') as f:
                json.dump({'scale': SCALE, 'results': results}, f, indent=1)
        elif not a.only and not a.props:
            with open(os.path.join(VERIF, 'refactor_results.json'), 'w') as f:
                json.dump({'scale': SCALE, 'results': results}, f, indent=1)
        return 0
    if a.seeded and a.all_props and not a.only:
        name = 'sensitivity_seeded_matrix.json'
        with open(os.path.join(VERIF, name), 'w') as f:
            json.dump({'scale': SCALE, 'results': results}, f, indent=1)
        return 0
    name = 'sensitivity_seeded.json' if a.seeded else (
        'harmless_refactors.json' if a.harmless else 'sensitivity.json')
    if a.harmless:
        alarms = [(r['mutant'], p_) for r in results
                  for p_, c in r.get('checks', {}).items() if c['exit'] != 0]
        print('harmless refactors: %d, alarms: %s' % (len(results), alarms))
    if not a.only:
        with open(os.path.join(VERIF, name), 'w') as f:
            json.dump(results, f, indent=1)
    elif a.json_out:
        with open(a.json_out, 'w') as f:
            json.dump(results, f, indent=1)
    missed = [r['mutant'] for r in results if r.get('applied') and
              r.get('tests_pass') and not r.get('caught_by')]
    print('mutants: %d, applied+tests pass: %d, missed: %s' % (
        len(results), sum(1 for r in results if r.get('applied') and
                          r.get('tests_pass')), missed))
    return 0


if __name__ == '__main__':
    sys.exit(main())
