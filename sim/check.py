#!/venv/bin/python
"""CLI:  check.py <property> [--tier quick|thorough] [--runs N]
        check.py <property> --replay <file>

exit 0 = held on everything explored; exit 1 + "VIOLATION property=<id>
replay=<path>" = violation; exit 2 = harness problem (never a verdict).
"""
import argparse
import json
import os
import sys

HERE = os.path.dirname(os.path.abspath(__file__))
if HERE not in sys.path:
    sys.path.insert(0, HERE)


def main():
    ap = argparse.ArgumentParser()
    ap.add_argument('prop')
    ap.add_argument('--tier', default=os.environ.get('VERIF_TIER', 'quick'),
                    choices=['quick', 'thorough'])
    ap.add_argument('--runs', type=int, default=None)
    ap.add_argument('--workers', type=int, default=None)
    ap.add_argument('--replay', default=None)
    ap.add_argument('--quiet', action='store_true')
    a = ap.parse_args()
    if os.environ.get('PYTHONHASHSEED') != '0':
        # one fixed hash seed: set/dict iteration order can then never leak
        # into a schedule (selftest also runs under other hash seeds)
        env = dict(os.environ)
        env['PYTHONHASHSEED'] = '0'
        os.execve(sys.executable, [sys.executable] + sys.argv, env)
    if a.tier == 'thorough':
        # the thorough tier lets real CBC work longer on the instances at
        # scale (255..258 students under -stab need more than 15 s)
        os.environ.setdefault('VERIF_CBC_LIMIT', '90')
        os.environ.setdefault('VERIF_WALL_CAP', '400')
    import batch
    seed = int(os.environ.get('VERIF_SEED', batch.DEFAULT_SEED))
    if a.replay:
        rep, same, sigs, v = batch.replay(a.prop, a.replay)
        if rep:
            print('VIOLATION property=%s replay=%s' % (a.prop, a.replay))
            if not a.quiet:
                print('  signatures=%s same_event_digest=%s' % (sigs, same))
                for viol in v['violations']:
                    print('  ' + json.dumps(batch.jsonable(viol),
                                            default=str)[:1500])
            return 1
        print('replay %s: recorded violation not reproduced (signatures now: '
              '%s)' % (a.replay, sigs))
        return 0
    return batch.check(a.prop, a.tier, seed, n=a.runs, workers=a.workers)


if __name__ == '__main__':
    sys.exit(main())
